(* DirectMore: C11 for channel.Direct under ARBITRARY interleavings of Send, Recv and Close
   (model: Direct.v, frozen; DirectProofs.v only covers "all Sends, Close, all Recvs").

   [run_trace st ops] executes a sequence of operations on one direction and lists what each
   operation returned; it is undefined (None) when an operation would never return in the
   sequential model: a Recv on an empty open direction (blocks for ever) or a second Close (an
   unrecovered panic).  A Send after Close returns its error and changes nothing; a Recv on an
   empty closed direction returns io.EOF and changes nothing.

   [run] is the projection the property talks about: the final state and the records received.
   [run_rv] is the rendezvous variant: a Send is enabled only when the queue is empty (the
   unbuffered Go channel hands a record over only when the previous one has been taken). *)
From Coq Require Import List NArith Bool Lia Arith.
From JV Require Import Bytes FrameBase Direct.
Import ListNotations.
Local Open Scope N_scope.

Inductive op := OSend (r : bytes) | ORecv | OClose.

(* what one operation returned *)
Inductive oret :=
| RSent                 (* Send: nil *)
| RSendErr              (* Send: "send on closed channel" *)
| RRecvd (r : bytes)    (* Recv: r, nil *)
| REof                  (* Recv: nil, io.EOF *)
| RClosed.              (* Close: nil *)

Definition step (st : dstate) (o : op) : option (dstate * oret) :=
  match o with
  | OSend r => match dsend st r with
               | DSent st' => Some (st', RSent)
               | DSendErr => Some (st, RSendErr)
               end
  | ORecv => match drecv st with
             | DRecv r st' => Some (st', RRecvd r)
             | DEOF => Some (st, REof)
             | DBlocked => None
             end
  | OClose => match dclose st with
              | DClosed st' => Some (st', RClosed)
              | DCloseCrash => None
              end
  end.

Fixpoint run_trace (st : dstate) (ops : list op) : option (dstate * list oret) :=
  match ops with
  | [] => Some (st, [])
  | o :: ops' =>
      match step st o with
      | None => None
      | Some (st1, x) =>
          match run_trace st1 ops' with
          | None => None
          | Some (st2, xs) => Some (st2, x :: xs)
          end
      end
  end.

(* the records received, in the order in which the Recv calls returned them *)
Fixpoint received (xs : list oret) : list bytes :=
  match xs with
  | [] => []
  | RRecvd r :: xs' => r :: received xs'
  | _ :: xs' => received xs'
  end.

Definition run (st : dstate) (ops : list op) : option (dstate * list bytes) :=
  match run_trace st ops with
  | Some (st', xs) => Some (st', received xs)
  | None => None
  end.

(* the records of the Sends that were accepted: those issued while the direction was open *)
Fixpoint accepted (closed : bool) (ops : list op) : list bytes :=
  match ops with
  | [] => []
  | OSend r :: ops' => if closed then accepted closed ops' else r :: accepted closed ops'
  | ORecv :: ops' => accepted closed ops'
  | OClose :: ops' => accepted true ops'
  end.

(* all records handed to Send *)
Fixpoint sends (ops : list op) : list bytes :=
  match ops with
  | [] => []
  | OSend r :: ops' => r :: sends ops'
  | _ :: ops' => sends ops'
  end.

(* ---- FIFO under arbitrary interleaving ---------------------------------------------- *)

Lemma received_app xs ys : received (xs ++ ys) = received xs ++ received ys.
Proof.
  induction xs as [|x xs IH]; [reflexivity|]. destruct x; cbn [app received]; rewrite ?IH; reflexivity.
Qed.

Lemma run_trace_app : forall ops1 ops2 st,
  run_trace st (ops1 ++ ops2) =
  match run_trace st ops1 with
  | None => None
  | Some (st1, xs) => match run_trace st1 ops2 with
                      | None => None
                      | Some (st2, ys) => Some (st2, xs ++ ys)
                      end
  end.
Proof.
  induction ops1 as [|o ops1 IH]; intros ops2 st.
  - cbn [app run_trace]. destruct (run_trace st ops2) as [[st2 ys]|]; reflexivity.
  - cbn [app run_trace]. destruct (step st o) as [[st1 x]|]; [|reflexivity].
    rewrite IH. destruct (run_trace st1 ops1) as [[st2 xs]|]; [|reflexivity].
    destruct (run_trace st2 ops2) as [[st3 ys]|]; reflexivity.
Qed.

(* one step: the invariant  received ++ queue = old queue ++ accepted  *)
Lemma step_fifo st o st' x :
  step st o = Some (st', x) ->
  received [x] ++ dqueue st' = dqueue st ++ accepted (dclosed st) [o] /\
  dclosed st' = match o with OClose => true | _ => dclosed st end.
Proof.
  destruct st as [q cl]. destruct o as [r| |]; unfold step.
  - unfold dsend. cbn [dclosed dqueue]. destruct cl; intros H; inversion H; subst; cbn.
    + now rewrite app_nil_r.
    + auto.
  - unfold drecv. cbn [dclosed dqueue]. destruct q as [|r q].
    + destruct cl; intros H; inversion H; subst. cbn. auto.
    + intros H; inversion H; subst. cbn. now rewrite app_nil_r.
  - unfold dclose. cbn [dclosed dqueue]. destruct cl; intros H; inversion H; subst. cbn.
    now rewrite app_nil_r.
Qed.

Lemma accepted_cons closed o ops :
  accepted closed (o :: ops) =
  accepted closed [o] ++ accepted (match o with OClose => true | _ => closed end) ops.
Proof. destruct o as [r| |]; cbn [accepted]; [destruct closed|..]; reflexivity. Qed.

Lemma run_trace_fifo : forall ops st st' xs,
  run_trace st ops = Some (st', xs) ->
  received xs ++ dqueue st' = dqueue st ++ accepted (dclosed st) ops.
Proof.
  induction ops as [|o ops IH]; intros st st' xs H; cbn [run_trace] in H.
  - inversion H; subst. cbn. now rewrite app_nil_r.
  - destruct (step st o) as [[st1 x]|] eqn:Es; [|discriminate].
    destruct (run_trace st1 ops) as [[st2 ys]|] eqn:Er; [|discriminate].
    inversion H; subst st' xs. destruct (step_fifo _ _ _ _ Es) as [H1 H2].
    specialize (IH _ _ _ Er). rewrite accepted_cons, app_assoc, <- H1, <- H2.
    change (x :: ys) with ([x] ++ ys). rewrite received_app, <- !app_assoc. now rewrite IH.
Qed.

(* FIFO for EVERY sequence of operations: at any moment, the records received so far followed
   by the records still queued are exactly the records accepted so far, in the order sent *)
Theorem direct_interleaved : forall ops st st' got,
  run st ops = Some (st', got) ->
  got ++ dqueue st' = dqueue st ++ accepted (dclosed st) ops.
Proof.
  intros ops st st' got H. unfold run in H.
  destruct (run_trace st ops) as [[st1 xs]|] eqn:E; [|discriminate]. inversion H; subst.
  now apply run_trace_fifo.
Qed.

Lemma accepted_open_no_close ops : ~ In OClose ops -> accepted false ops = sends ops.
Proof.
  induction ops as [|o ops IH]; intros Hn; [reflexivity|].
  assert (Hn' : ~ In OClose ops) by (intros Hx; apply Hn; now right).
  destruct o as [r| |]; cbn [accepted sends]; [now rewrite IH | now apply IH |].
  exfalso. apply Hn. now left.
Qed.

(* from the initial state, before any Close: received ++ queued = everything sent *)
Corollary direct_interleaved_open : forall ops st' got,
  ~ In OClose ops -> run dinit ops = Some (st', got) -> got ++ dqueue st' = sends ops.
Proof.
  intros ops st' got Hn H. rewrite (direct_interleaved _ _ _ _ H). cbn [dinit dqueue dclosed app].
  now apply accepted_open_no_close.
Qed.

(* every prefix of a run is a run: the invariant holds "so far", at every moment *)
Lemma run_prefix ops1 ops2 st st' got :
  run st (ops1 ++ ops2) = Some (st', got) ->
  exists st1 got1 got2, run st ops1 = Some (st1, got1) /\ run st1 ops2 = Some (st', got2) /\ got = got1 ++ got2.
Proof.
  unfold run. rewrite run_trace_app.
  destruct (run_trace st ops1) as [[st1 xs]|]; [|discriminate].
  destruct (run_trace st1 ops2) as [[st2 ys]|] eqn:E2; [|discriminate].
  intros H. inversion H; subst. exists st1, (received xs), (received ys).
  rewrite E2. split; [reflexivity|]. split; [reflexivity|]. apply received_app.
Qed.

(* ---- io.EOF for ever ------------------------------------------------------------------ *)

(* what an operation returns on a closed, drained direction *)
Definition after_eof (o : op) : oret := match o with ORecv => REof | _ => RSendErr end.

Lemma run_trace_drained : forall ops st,
  dclosed st = true -> dqueue st = [] -> ~ In OClose ops ->
  run_trace st ops = Some (st, map after_eof ops).
Proof.
  induction ops as [|o ops IH]; intros st Hc Hq Hn; [reflexivity|].
  assert (Hn' : ~ In OClose ops) by (intros Hx; apply Hn; now right).
  cbn [run_trace map]. destruct o as [r| |].
  - unfold step, dsend. rewrite Hc. rewrite IH by assumption. reflexivity.
  - unfold step, drecv. rewrite Hq, Hc. rewrite IH by assumption. reflexivity.
  - exfalso. apply Hn. now left.
Qed.

(* once a run has reached a closed and drained direction, EVERY later Recv returns io.EOF (and
   every later Send its error), whatever the later operations are and however many *)
Theorem direct_eof_forever : forall ops1 ops2 st st1 xs,
  run_trace st ops1 = Some (st1, xs) -> dclosed st1 = true -> dqueue st1 = [] ->
  ~ In OClose ops2 ->
  run_trace st (ops1 ++ ops2) = Some (st1, xs ++ map after_eof ops2).
Proof.
  intros ops1 ops2 st st1 xs H Hc Hq Hn. rewrite run_trace_app, H.
  now rewrite run_trace_drained.
Qed.

(* the only operation that does not return on a closed direction is a second Close *)
Lemma run_trace_second_close st ops : dclosed st = true -> In OClose ops -> run_trace st ops = None.
Proof.
  revert st. induction ops as [|o ops IH]; intros st Hc Hin; [destruct Hin|].
  cbn [run_trace]. destruct o as [r| |].
  - destruct Hin as [Hx|Hin]; [discriminate|]. unfold step, dsend. rewrite Hc. now rewrite IH.
  - destruct Hin as [Hx|Hin]; [discriminate|]. unfold step, drecv.
    destruct (dqueue st) as [|r q] eqn:Eq.
    + rewrite Hc. now rewrite IH.
    + rewrite IH; auto.
  - unfold step, dclose. now rewrite Hc.
Qed.

(* after Close, Recv drains the queue in order and then reports io.EOF, n times for every n *)
Theorem direct_drain_then_eof : forall q n,
  run_trace {| dqueue := q; dclosed := true |} (repeat ORecv (length q + n))
  = Some ({| dqueue := []; dclosed := true |}, map RRecvd q ++ repeat REof n).
Proof.
  induction q as [|r q IH]; intros n.
  - cbn [length Nat.add map app]. rewrite run_trace_drained; auto.
    + f_equal. f_equal. induction n as [|n IHn]; [reflexivity|]. cbn. now rewrite IHn.
    + intros Hx. apply repeat_spec in Hx. discriminate.
  - cbn [length Nat.add repeat run_trace]. unfold step, drecv. cbn [dqueue dclosed].
    rewrite IH. reflexivity.
Qed.

(* ---- rendezvous: the unbuffered Go channel ---------------------------------------------- *)

(* a Send is enabled only when the previous record has been taken *)
Definition step_rv (st : dstate) (o : op) : option (dstate * oret) :=
  match o, dqueue st with
  | OSend _, _ :: _ => if dclosed st then step st o else None
  | _, _ => step st o
  end.

Fixpoint run_trace_rv (st : dstate) (ops : list op) : option (dstate * list oret) :=
  match ops with
  | [] => Some (st, [])
  | o :: ops' =>
      match step_rv st o with
      | None => None
      | Some (st1, x) =>
          match run_trace_rv st1 ops' with
          | None => None
          | Some (st2, xs) => Some (st2, x :: xs)
          end
      end
  end.

Definition run_rv (st : dstate) (ops : list op) : option (dstate * list bytes) :=
  match run_trace_rv st ops with
  | Some (st', xs) => Some (st', received xs)
  | None => None
  end.

Lemma step_rv_step st o x : step_rv st o = Some x -> step st o = Some x.
Proof.
  unfold step_rv. destruct o as [r| |]; auto. destruct (dqueue st); auto.
  destruct (dclosed st); [auto|discriminate].
Qed.

Lemma step_rv_queue st o st' x :
  step_rv st o = Some (st', x) -> (length (dqueue st) <= 1)%nat -> (length (dqueue st') <= 1)%nat.
Proof.
  destruct st as [q cl]. unfold step_rv, step. cbn [dqueue dclosed]. destruct o as [r| |].
  - destruct q as [|a q].
    + unfold dsend. cbn [dqueue dclosed]. destruct cl; intros H _; inversion H; subst; cbn; lia.
    + destruct cl; [|discriminate]. unfold dsend. cbn [dclosed]. intros H Hl; inversion H; subst. exact Hl.
  - unfold drecv. cbn [dqueue dclosed]. destruct q as [|a q].
    + destruct cl; intros H Hl; inversion H; subst; cbn; lia.
    + intros H Hl; inversion H; subst. cbn in *. lia.
  - unfold dclose. cbn [dqueue dclosed]. destruct cl; intros H Hl; inversion H; subst. exact Hl.
Qed.

Lemma run_trace_rv_sound : forall ops st st' xs,
  run_trace_rv st ops = Some (st', xs) -> (length (dqueue st) <= 1)%nat ->
  run_trace st ops = Some (st', xs) /\ (length (dqueue st') <= 1)%nat.
Proof.
  induction ops as [|o ops IH]; intros st st' xs H Hl; cbn [run_trace_rv] in H.
  - inversion H; subst. auto.
  - destruct (step_rv st o) as [[st1 x]|] eqn:Es; [|discriminate].
    destruct (run_trace_rv st1 ops) as [[st2 ys]|] eqn:Er; [|discriminate].
    inversion H; subst st' xs.
    destruct (IH _ _ _ Er (step_rv_queue _ _ _ _ Es Hl)) as [H1 H2].
    cbn [run_trace]. rewrite (step_rv_step _ _ _ Es), H1. auto.
Qed.

(* rendezvous: the same FIFO invariant, and at most ONE record is ever in flight - so a record
   is received before the next one can be sent *)
Theorem direct_rendezvous : forall ops st' got,
  run_rv dinit ops = Some (st', got) ->
  run dinit ops = Some (st', got) /\
  got ++ dqueue st' = accepted false ops /\
  (length (dqueue st') <= 1)%nat.
Proof.
  intros ops st' got H. unfold run_rv in H.
  destruct (run_trace_rv dinit ops) as [[st1 xs]|] eqn:E; [|discriminate]. inversion H; subst.
  destruct (run_trace_rv_sound _ _ _ _ E) as [H1 H2]; [cbn; lia|].
  assert (Hr : run dinit ops = Some (st', received xs)) by (unfold run; now rewrite H1).
  split; [exact Hr|]. split; [|exact H2]. exact (direct_interleaved _ _ _ _ Hr).
Qed.

(* in the rendezvous discipline a second Send before the Recv is NOT enabled *)
Lemma rendezvous_blocks_second_send r1 r2 : run_rv dinit [OSend r1; OSend r2] = None.
Proof. reflexivity. Qed.

(* ---- non-vacuity --------------------------------------------------------------------------- *)

(* Send and Recv interleaved, a Recv between two Sends, Close with a record still queued, the
   drained direction, a Send after Close *)
Example direct_interleaved_nonvacuous :
  run dinit [OSend [1]; OSend []; ORecv; OSend [2; 3]; ORecv; OClose; OSend [9]; ORecv; ORecv; ORecv]
  = Some ({| dqueue := []; dclosed := true |}, [[1]; []; [2; 3]]) /\
  accepted false [OSend [1]; OSend []; ORecv; OSend [2; 3]; ORecv; OClose; OSend [9]; ORecv; ORecv; ORecv]
  = [[1]; []; [2; 3]] /\
  run dinit [OSend [1]; OSend [2]; ORecv] = Some ({| dqueue := [[2]]; dclosed := false |}, [[1]]).
Proof. vm_compute. auto. Qed.

Example direct_interleaved_open_nonvacuous :
  ~ In OClose [OSend [1]; ORecv; OSend [2]; OSend [3]; ORecv] /\
  run dinit [OSend [1]; ORecv; OSend [2]; OSend [3]; ORecv] = Some ({| dqueue := [[3]]; dclosed := false |}, [[1]; [2]]).
Proof. split; [|vm_compute; reflexivity]. cbn. intuition discriminate. Qed.

Example direct_eof_forever_nonvacuous :
  run_trace dinit [OSend [7]; OClose; ORecv] = Some ({| dqueue := []; dclosed := true |}, [RSent; RClosed; RRecvd [7]]) /\
  ~ In OClose [ORecv; OSend [1]; ORecv] /\
  run_trace dinit ([OSend [7]; OClose; ORecv] ++ [ORecv; OSend [1]; ORecv])
  = Some ({| dqueue := []; dclosed := true |}, [RSent; RClosed; RRecvd [7]; REof; RSendErr; REof]).
Proof. split; [vm_compute; reflexivity|]. split; [cbn; intuition discriminate | vm_compute; reflexivity]. Qed.

Example direct_rendezvous_nonvacuous :
  run_rv dinit [OSend [1]; ORecv; OSend [2]; ORecv; OClose; ORecv]
  = Some ({| dqueue := []; dclosed := true |}, [[1]; [2]]).
Proof. vm_compute. reflexivity. Qed.

(* a Recv on an empty open direction never returns; a second Close panics *)
Example direct_not_enabled :
  run dinit [ORecv] = None /\ run dinit [OClose; OClose] = None.
Proof. vm_compute. auto. Qed.

Example run_prefix_nonvacuous :
  run dinit ([OSend [1]; OSend [2]; ORecv] ++ [ORecv; OClose]) = Some ({| dqueue := []; dclosed := true |}, [[1]; [2]]) /\
  run dinit [OSend [1]; OSend [2]; ORecv] = Some ({| dqueue := [[2]]; dclosed := false |}, [[1]]) /\
  run {| dqueue := [[2]]; dclosed := false |} [ORecv; OClose] = Some ({| dqueue := []; dclosed := true |}, [[2]]).
Proof. vm_compute. auto. Qed.
