(* HdrMore: further C12 facts about the header framings (model Hdr.v, grammar HdrSpec.v):
   the Content-Length requirement in explicit form, the remaining stream is a suffix of the
   input for every outcome, per-call robustness for the n-th call. *)
From Coq Require Import List NArith ZArith Bool Lia Arith.
From JV Require Import Bytes FrameBase FrameBaseProofs Hdr HdrProofs HdrSpec HdrSpecProofs FrameMore.
Import ListNotations.
Local Open Scope N_scope.
Import HdrSpec.

(* ---- "require a non-negative decimal Content-Length" ------------------------------------------ *)

(* what the header loop hands to the body reader, for a header block of the grammar *)
Lemma recv_strict_headers c want st s fs body :
  headers s fs body ->
  recv_strict c want st s =
  recv_body c want (ctype fs) (match field key_length fs with Some v => v | None => [] end) st body.
Proof.
  intros Hh. rewrite recv_strict_unfold. rewrite (headers_hdr_loop _ _ _ Hh) by lia. reflexivity.
Qed.

(* a header block WITHOUT a Content-Length field (or with an empty value): "missing required
   content-length", whatever else the block and the stream contain; nothing of the body is
   consumed, the buffer state is untouched *)
Theorem hdr_length_missing : forall c p want st s fs body,
  headers s fs body ->
  field key_length fs = None \/ field key_length fs = Some [] ->
  Hdr.recv c p want st s = Err EMissingLength st body.
Proof.
  intros c p want st s fs body Hh Hf. apply recv_of_strict_err.
  rewrite (recv_strict_headers c want st s fs body Hh).
  destruct Hf as [-> | ->]; reflexivity.
Qed.

(* a Content-Length value that is not a non-negative decimal (HdrSpec.decimal: optional sign, one
   or more ASCII digits, value within int64, not negative): "invalid content-length" *)
Theorem hdr_length_invalid : forall c p want st s fs body v,
  headers s fs body ->
  field key_length fs = Some v -> v <> [] -> (forall n, ~ decimal v n) ->
  Hdr.recv c p want st s = Err EInvalidLength st body.
Proof.
  intros c p want st s fs body v Hh Hf Hv Hnd. apply recv_of_strict_err.
  rewrite (recv_strict_headers c want st s fs body Hh), Hf.
  unfold recv_body. destruct v as [|c0 v']; [congruence|].
  destruct (atoi (c0 :: v')) as [z|] eqn:Ea; [|reflexivity].
  destruct (Z.ltb_spec z 0) as [Hneg|Hpos]; [reflexivity|].
  exfalso. exact (Hnd _ (atoi_decimal _ _ Ea Hpos)).
Qed.

(* the two together: no frame without a decimal Content-Length *)
Theorem hdr_length_required : forall c p want st s fs body,
  headers s fs body ->
  (forall v n, field key_length fs = Some v -> ~ decimal v n) ->
  Hdr.recv c p want st s = Err EMissingLength st body \/ Hdr.recv c p want st s = Err EInvalidLength st body.
Proof.
  intros c p want st s fs body Hh Hnd.
  destruct (field key_length fs) as [v|] eqn:Hf.
  - destruct v as [|c0 v'].
    + left. apply (hdr_length_missing c p want st s fs body Hh). now right.
    + right. apply (hdr_length_invalid c p want st s fs body (c0 :: v') Hh Hf); [discriminate|].
      intros n. now apply Hnd.
  - left. apply (hdr_length_missing c p want st s fs body Hh). now left.
Qed.

(* non-vacuity: header blocks of the grammar without the field / with values that are not
   non-negative decimals (negative, hexadecimal, with an inner space, beyond int64) *)
Definition blk_no_length : bytes := [88; 58; 49; 13; 10; 13; 10; 97].            (* X:1 CRLF CRLF a *)
Definition blk (v : bytes) : bytes := s_content_length_hdr ++ v ++ crlf ++ crlf ++ [97].

Lemma headers_of_done s ct cl rest :
  hdr_loop (S (length s)) [] [] s = HDone ct cl rest ->
  exists fs, headers s fs rest /\ cl = match field key_length fs with Some v => v | None => [] end.
Proof. intros H. destruct (hdr_loop_headers _ _ _ _ _ _ _ H) as [fs [Hh [_ Hcl]]]. eauto. Qed.

Example hdr_length_missing_nonvacuous :
  exists fs, headers blk_no_length fs [97] /\
             (field key_length fs = None \/ field key_length fs = Some []) /\
             Hdr.recv cfg_fixed Strict [] 0 blk_no_length = Err EMissingLength 0 [97].
Proof.
  destruct (headers_of_done blk_no_length [] [] [97]) as [fs [Hh Hcl]]; [vm_compute; reflexivity|].
  exists fs. split; [exact Hh|]. split; [|vm_compute; reflexivity].
  destruct (field key_length fs) as [v|]; [right; now subst v | now left].
Qed.

Lemma not_decimal_of_atoi v : (forall z, atoi v = Some z -> (z < 0)%Z) -> forall n, ~ decimal v n.
Proof.
  intros H n Hd. destruct (decimal_atoi v n Hd) as [Ha _]. specialize (H _ Ha). lia.
Qed.

Example hdr_length_invalid_nonvacuous :
  (* Content-Length: -1 *)
  exists fs v, headers (blk [45; 49]) fs [97] /\ field key_length fs = Some v /\ v <> [] /\
               (forall n, ~ decimal v n) /\
               Hdr.recv cfg_fixed Optional lsp_mime 0 (blk [45; 49]) = Err EInvalidLength 0 [97].
Proof.
  destruct (headers_of_done (blk [45; 49]) [] [45; 49] [97]) as [fs [Hh Hcl]]; [vm_compute; reflexivity|].
  exists fs, [45; 49]. split; [exact Hh|].
  split; [destruct (field key_length fs) as [v|]; [now subst v | discriminate]|].
  split; [discriminate|]. split; [|vm_compute; reflexivity].
  apply not_decimal_of_atoi. intros z Hz. vm_compute in Hz. inversion Hz. reflexivity.
Qed.

Example hdr_length_required_nonvacuous :
  exists fs, headers blk_no_length fs [97] /\
             (forall v n, field key_length fs = Some v -> ~ decimal v n).
Proof.
  destruct hdr_length_missing_nonvacuous as [fs [Hh [Hf _]]]. exists fs. split; [exact Hh|].
  intros v n Hv [sign [ds [Hd [Hne _]]]]. destruct Hf as [Hf|Hf]; rewrite Hf in Hv; [discriminate|].
  inversion Hv; subst v. destruct sign; destruct ds; try discriminate. congruence.
Qed.

(* more values that are not non-negative decimals: hexadecimal, an inner space, 2^63, a bare sign,
   digits with a trailing letter; and "-0", "+7", "007" ARE decimals (Atoi accepts them) *)
Example hdr_length_values :
  Hdr.recv cfg_fixed Strict [] 0 (blk [48; 120; 49; 48]) = Err EInvalidLength 0 [97] /\
  Hdr.recv cfg_fixed Strict [] 0 (blk [49; 32; 50]) = Err EInvalidLength 0 [97] /\
  Hdr.recv cfg_fixed Strict [] 0 (blk [57;50;50;51;51;55;50;48;51;54;56;53;52;55;55;53;56;48;56]) = Err EInvalidLength 0 [97] /\
  Hdr.recv cfg_fixed Strict [] 0 (blk [45]) = Err EInvalidLength 0 [97] /\
  Hdr.recv cfg_fixed Strict [] 0 (blk [49; 97]) = Err EInvalidLength 0 [97] /\
  Hdr.recv cfg_fixed Strict [] 0 (blk [32; 32]) = Err EMissingLength 0 [97] /\
  Hdr.recv cfg_fixed Strict [] 0 (blk [45; 48]) = Ok [] 0 [97] /\
  Hdr.recv cfg_fixed Strict [] 0 (blk [43; 49]) = Ok [97] 2 [] /\
  Hdr.recv cfg_fixed Strict [] 0 (blk [48; 48; 49]) = Ok [97] 2 [].
Proof. vm_compute. repeat split. Qed.

(* ---- the remaining stream is a suffix of the input, for EVERY outcome -------------------------- *)

Lemma hdr_loop_suffix : forall f ct cl s,
  match hdr_loop f ct cl s with
  | HDone _ _ rest | HErr _ rest => suffix rest s
  | HOutOfFuel => True
  end.
Proof.
  induction f as [|f IH]; intros ct cl s; [exact I|].
  rewrite hdr_loop_S. destruct (read_string 10 s) as [[raw rest] found] eqn:E.
  destruct (read_string_spec _ _ _ _ _ E) as [Hs _].
  assert (Hsuf : suffix rest s) by (rewrite Hs; apply suffix_app).
  assert (G : forall ct' cl',
    match hdr_loop f ct' cl' rest with
    | HDone _ _ r' | HErr _ r' => suffix r' s
    | HOutOfFuel => True
    end).
  { intros ct' cl'. specialize (IH ct' cl' rest).
    destruct (hdr_loop f ct' cl' rest); auto; eapply suffix_trans; eauto. }
  destruct (negb found && is_nil raw); [exact Hsuf|].
  destruct (is_nil (trim_right_crlf raw)); [exact Hsuf|].
  destruct (split_colon (trim_right_crlf raw)) as [[name value]|]; [|exact Hsuf].
  destruct (beq _ _); [apply G|]. destruct (beq _ _); apply G.
Qed.

Lemma recv_body_suffix c want ct cl st s rest :
  rest_of (recv_body c want ct cl st s) = Some rest -> suffix rest s.
Proof.
  unfold recv_body.
  assert (T : forall size cerr st',
    rest_of (match take_n size s with
             | (data, r, true) => finish data cerr st' r
             | ([], r, false) => Err EEOF st' r
             | (_ :: _, r, false) => Err EUnexpectedEOF st' r
             end) = Some rest -> suffix rest s).
  { intros size cerr st' H. destruct (take_n size s) as [[data r] ok] eqn:Et.
    destruct (take_n_spec _ _ _ _ _ Et) as [Hs _].
    assert (r = rest).
    { destruct ok, data; unfold finish in H; try destruct cerr; cbn in H; congruence. }
    subst r. rewrite Hs. apply suffix_app. }
  destruct cl as [|c0 cl']; [cbn; intros H; inversion H; apply suffix_refl|].
  destruct (atoi (c0 :: cl')) as [z|]; [|cbn; intros H; inversion H; apply suffix_refl].
  destruct (z <? 0)%Z; [cbn; intros H; inversion H; apply suffix_refl|].
  destruct (fix_F5 c && (max_prealloc <? Z.to_N z) && (st <? Z.to_N z)); [apply T|].
  destruct (if (st <? Z.to_N z) || (shrink_above <? st) && (Z.to_N z <? st / 4)
            then make_slice (wrap64 (z * 2)) else Some st) as [st'|]; [|discriminate].
  destruct (st' <? Z.to_N z); [discriminate|]. apply T.
Qed.

(* header framings: every outcome - record, record with a content-type error, every bare error,
   with either defect switch and from any buffer state - leaves a suffix of the input *)
Theorem hdr_rest_is_suffix : forall c p want st s rest,
  rest_of (Hdr.recv c p want st s) = Some rest -> suffix rest s.
Proof.
  intros c p want st s rest H.
  assert (Hs : rest_of (recv_strict c want st s) = Some rest).
  { unfold Hdr.recv in H. destruct p; [exact H|].
    destruct (recv_strict c want st s) as [a s1 r1|a e s1 r1|e s1 r1|cr|]; try exact H.
    destruct e; try exact H. destruct got; exact H. }
  clear H. rewrite recv_strict_unfold in Hs.
  pose proof (hdr_loop_suffix (S (length s)) [] [] s) as L.
  destruct (hdr_loop (S (length s)) [] [] s) as [ct cl body|e body|]; [| |discriminate].
  - eapply suffix_trans; [eapply recv_body_suffix; exact Hs | exact L].
  - cbn in Hs. inversion Hs; subst. exact L.
Qed.

Example hdr_rest_is_suffix_nonvacuous :
  (* an invalid header line: the error consumed the line, the rest is what followed it *)
  rest_of (Hdr.recv cfg_fixed Strict [] 0 [120; 10; 121]) = Some [121] /\
  rest_of (Hdr.recv cfg_fixed Strict [] 0 (blk [53])) = Some [].
Proof. vm_compute. auto. Qed.

(* ---- every call ------------------------------------------------------------------------------------ *)

(* the n-th call for every n: no panic, no fuel exhaustion, the buffer state stays within its bound *)
Theorem hdr_every_call : forall n p want st s,
  st <= buf_bound ->
  match call_n (Hdr.recv cfg_fixed p want) n st s with
  | Ok _ st' _ | OkWithErr _ _ st' _ | Err _ st' _ => st' <= buf_bound
  | Crash _ | OutOfFuel => False
  end.
Proof.
  intros n p want st s Hst.
  exact (every_call_ok (Hdr.recv cfg_fixed p want) (fun st => st <= buf_bound) (hdr_progress p want) n st s Hst).
Qed.

(* errors of the header framings consume input: after at most |s| calls the stream is exhausted
   and from then on EVERY call returns io.EOF *)
Theorem hdr_eventually_eof : forall n p want st s,
  st <= buf_bound -> (length s <= n)%nat ->
  exists st', st' <= buf_bound /\ call_n (Hdr.recv cfg_fixed p want) n st s = Err EEOF st' [].
Proof.
  intros n p want st s Hst Hl.
  apply (eventually_eof (Hdr.recv cfg_fixed p want) (fun st => st <= buf_bound) (hdr_progress p want)); auto.
  intros st0 s0 Hi. destruct (HdrProofs.recv_cases cfg_fixed p want st0 s0 Hi eq_refl) as [[-> E]|[Hne C]].
  - rewrite E. right. auto.
  - unfold consumed in C. destruct (Hdr.recv cfg_fixed p want st0 s0); try exact I; left; tauto.
Qed.

Example hdr_every_call_nonvacuous :
  (* x LF, a valid empty record, garbage: error, record, error, then io.EOF for ever *)
  call_n (Hdr.recv cfg_fixed Strict []) 0 0 ([120; 10] ++ enc [] [] ++ [121]) = Err EInvalidHeader 0 (enc [] [] ++ [121]) /\
  call_n (Hdr.recv cfg_fixed Strict []) 1 0 ([120; 10] ++ enc [] [] ++ [121]) = Ok [] 0 [121] /\
  call_n (Hdr.recv cfg_fixed Strict []) 2 0 ([120; 10] ++ enc [] [] ++ [121]) = Err EInvalidHeader 0 [] /\
  call_n (Hdr.recv cfg_fixed Strict []) 3 0 ([120; 10] ++ enc [] [] ++ [121]) = Err EEOF 0 [] /\
  call_n (Hdr.recv cfg_fixed Strict []) 40 0 ([120; 10] ++ enc [] [] ++ [121]) = Err EEOF 0 [].
Proof. vm_compute. repeat split. Qed.
