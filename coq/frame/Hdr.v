(* Hdr: model of channel/hdr.go (StrictHeader, Header, LSP).

   type hdr struct{ mtype, ctype string; wc io.WriteCloser; rd *bufio.Reader;
                    buf *bytes.Buffer; rbuf []byte }

   Channel state of the receiving side = len(h.rbuf) as an N (the reuse policy only looks
   at the length of the buffer).  Definitions only; proofs in HdrProofs.v.

   Library functions modelled here and what is restricted:
   * bufio.Reader.ReadString('\n')       FrameBase.read_string (documented contract)
   * strings.TrimRight(raw, "\r\n")      trim_right_crlf (exact)
   * strings.SplitN(line, ":", 2)        split_colon (exact)
   * strings.TrimSpace                   trim_space: exact on ALL byte strings.  Go trims the
       runes with unicode.IsSpace: the six ASCII ones, U+0085, U+00A0, U+1680,
       U+2000..U+200A, U+2028, U+2029, U+202F, U+205F, U+3000.  A leading rune is decoded
       from a prefix of the bytes and a trailing rune (utf8.DecodeLastRuneInString) is a
       white-space rune exactly when the bytes END with its (unique, shortest-form) UTF-8
       encoding, so trimming is a matter of byte prefixes/suffixes.
   * strings.ToLower(name)               ascii_lower.  RESTRICTION: exact for the only use made
       of it, comparison with the ASCII constants "content-type" / "content-length": the only
       non-ASCII runes whose lower case is ASCII are U+212A (k) and U+0130 (i), and neither
       constant contains k or i, so a name with a byte >= 0x80 never matches, in Go as in the
       model.
   * strconv.Atoi                        atoi: optional sign, one or more ASCII decimal digits
       (no underscores, no base prefix, no spaces), value within int64; anything else is an
       error (syntax or range; the caller does not distinguish).  Checked against Go.
   * strconv.Itoa                        itoa
   * io.ReadFull / io.CopyN              FrameBase.take_n
   * make([]byte, n)                     make_slice: panics ("makeslice: len out of range") when
       n < 0 or n > maxAlloc (2^48 on linux/amd64).  An allocation the runtime accepts but the
       machine cannot satisfy (fatal "out of memory", not a panic) is outside the model; in
       the fixed code n <= 2^25 or n < len(rbuf)/2. *)
From Coq Require Import List NArith ZArith Bool Lia.
From JV Require Import Bytes FrameBase.
Import ListNotations.
Local Open Scope N_scope.

Definition s_content_type_hdr : bytes := [67; 111; 110; 116; 101; 110; 116; 45; 84; 121; 112; 101; 58; 32].       (* "Content-Type: " *)
Definition s_content_length_hdr : bytes := [67; 111; 110; 116; 101; 110; 116; 45; 76; 101; 110; 103; 116; 104; 58; 32]. (* "Content-Length: " *)
Definition s_content_type : bytes := [99; 111; 110; 116; 101; 110; 116; 45; 116; 121; 112; 101].                 (* "content-type" *)
Definition s_content_length : bytes := [99; 111; 110; 116; 101; 110; 116; 45; 108; 101; 110; 103; 116; 104].     (* "content-length" *)
Definition crlf : bytes := [13; 10].
(* "application/vscode-jsonrpc; charset=utf-8" *)
Definition lsp_mime : bytes :=
  [97; 112; 112; 108; 105; 99; 97; 116; 105; 111; 110; 47; 118; 115; 99; 111; 100; 101; 45; 106; 115; 111; 110;
   114; 112; 99; 59; 32; 99; 104; 97; 114; 115; 101; 116; 61; 117; 116; 102; 45; 56].

(* ---- strings ---------------------------------------------------------- *)

Definition is_crlf (c : N) : bool := (c =? 13) || (c =? 10).

Fixpoint trim_right_crlf (s : bytes) : bytes :=
  match s with
  | [] => []
  | c :: s' => match trim_right_crlf s' with
               | [] => if is_crlf c then [] else [c]
               | t => c :: t
               end
  end.

(* SplitN(line, ":", 2): None when there is no ':' (len(parts) == 1) *)
Fixpoint split_colon (s : bytes) : option (bytes * bytes) :=
  match s with
  | [] => None
  | c :: r => if c =? 58 then Some ([], r)
              else match split_colon r with
                   | Some (a, b) => Some (c :: a, b)
                   | None => None
                   end
  end.

Definition ascii_space (c : N) : bool :=
  (c =? 9) || (c =? 10) || (c =? 11) || (c =? 12) || (c =? 13) || (c =? 32).
(* U+0085, U+00A0 *)
Definition ws2 (a b : N) : bool := (a =? 194) && ((b =? 133) || (b =? 160)).
(* U+1680; U+2000..U+200A, U+2028, U+2029, U+202F; U+205F; U+3000 *)
Definition ws3 (a b c : N) : bool :=
  ((a =? 225) && (b =? 154) && (c =? 128)) ||
  ((a =? 226) && (b =? 128) && (((128 <=? c) && (c <=? 138)) || (c =? 168) || (c =? 169) || (c =? 175))) ||
  ((a =? 226) && (b =? 129) && (c =? 159)) ||
  ((a =? 227) && (b =? 128) && (c =? 128)).

(* strip white-space runes from the front; with [rv] the list is a reversed string and the
   multi-byte encodings are matched back to front *)
Fixpoint trim_front (rv : bool) (s : bytes) : bytes :=
  match s with
  | [] => []
  | c1 :: s1 =>
      if ascii_space c1 then trim_front rv s1
      else match s1 with
           | [] => s
           | c2 :: s2 =>
               if (if rv then ws2 c2 c1 else ws2 c1 c2) then trim_front rv s2
               else match s2 with
                    | [] => s
                    | c3 :: s3 =>
                        if (if rv then ws3 c3 c2 c1 else ws3 c1 c2 c3) then trim_front rv s3 else s
                    end
           end
  end.

Definition trim_space (s : bytes) : bytes := rev (trim_front true (rev (trim_front false s))).

Definition ascii_lower_byte (c : N) : N := if (65 <=? c) && (c <=? 90) then c + 32 else c.
Definition ascii_lower (s : bytes) : bytes := map ascii_lower_byte s.

(* ---- numbers ---------------------------------------------------------- *)

Definition is_digit (c : N) : bool := (48 <=? c) && (c <=? 57).

Fixpoint digits_val (ds : bytes) (acc : N) : option N :=
  match ds with
  | [] => Some acc
  | c :: r => if is_digit c then digits_val r (acc * 10 + (c - 48)) else None
  end.

Definition min_int : Z := (-9223372036854775808)%Z.
Definition max_int : Z := 9223372036854775807%Z.

Definition atoi (s : bytes) : option Z :=
  let '(neg, ds) := match s with
                    | c :: r => if c =? 43 then (false, r) else if c =? 45 then (true, r) else (false, s)
                    | [] => (false, [])
                    end in
  match ds with
  | [] => None
  | _ => match digits_val ds 0 with
         | None => None
         | Some n => let z := if neg then (- Z.of_N n)%Z else Z.of_N n in
                     if (z <? min_int)%Z || (max_int <? z)%Z then None else Some z
         end
  end.

Fixpoint itoa_aux (fuel : nat) (n : N) (acc : bytes) : bytes :=
  match fuel with
  | O => acc
  | S f => let acc' := (48 + n mod 10) :: acc in
           if n <? 10 then acc' else itoa_aux f (n / 10) acc'
  end.
(* a number has no more decimal than binary digits *)
Definition itoa (n : N) : bytes := itoa_aux (S (N.to_nat (N.size n))) n [].

(* ---- Send ------------------------------------------------------------- *)

(* ctype = "" if mimeType == "" else "Content-Type: " + mimeType + "\r\n";
   Send writes ctype + "Content-Length: " + Itoa(len(msg)) + "\r\n\r\n" + msg in one Write. *)
Definition send (mt : bytes) (r : bytes) : send_result :=
  Sent ((match mt with [] => [] | _ => s_content_type_hdr ++ mt ++ crlf end)
        ++ s_content_length_hdr ++ itoa (N.of_nat (length r)) ++ crlf ++ crlf ++ r).

(* ---- Recv ------------------------------------------------------------- *)

Inductive policy := Strict | Optional.    (* StrictHeader | Header, LSP (opthdr) *)

Inductive hdr_outcome :=
| HDone (ct cl : bytes) (rest : bytes)
| HErr (e : errkind) (rest : bytes)
| HOutOfFuel.

(* for {
     raw, err := h.rd.ReadString('\n')
     if err == io.EOF && raw != "" { /* partial line at EOF */ } else if err != nil { return nil, err }
     if line := strings.TrimRight(raw, "\r\n"); line == "" { break
     } else if parts := strings.SplitN(line, ":", 2); len(parts) == 2 {
       clean := strings.TrimSpace(parts[1])
       switch strings.ToLower(parts[0]) {
       case "content-type": contentType = clean
       case "content-length": contentLength = clean }
     } else { return nil, errors.New("invalid header line") } } *)
Fixpoint hdr_loop (fuel : nat) (ct cl : bytes) (s : bytes) : hdr_outcome :=
  match fuel with
  | O => HOutOfFuel
  | S f =>
      match read_string 10 s with
      | ([], rest, false) => HErr EEOF rest
      | (raw, rest, _) =>
          match trim_right_crlf raw with
          | [] => HDone ct cl rest
          | line =>
              match split_colon line with
              | Some (name, value) =>
                  let clean := trim_space value in
                  let lname := ascii_lower name in
                  if beq lname s_content_type then hdr_loop f clean cl rest
                  else if beq lname s_content_length then hdr_loop f ct clean rest
                  else hdr_loop f ct cl rest
              | None => HErr EInvalidHeader rest
              end
          end
      end
  end.

Definition max_prealloc : N := 16777216.      (* const maxPrealloc = 1 << 24 *)
Definition shrink_above : N := 1048576.       (* 1 << 20 *)
Definition max_alloc : Z := 281474976710656%Z.  (* 2^48 *)

(* Go int arithmetic: size*2 wraps around in 64 bits *)
Definition wrap64 (z : Z) : Z :=
  ((z + 9223372036854775808) mod 18446744073709551616 - 9223372036854775808)%Z.

Definition make_slice (n : Z) : option N :=
  if (n <? 0)%Z || (max_alloc <? n)%Z then None else Some (Z.to_N n).

Definition finish (data : bytes) (cerr : option errkind) (st : N) (rest : bytes) : result N :=
  match cerr with
  | None => Ok data st rest
  | Some e => OkWithErr data e st rest
  end.

(* var contentErr error
   if contentType != h.mtype { contentErr = &ContentTypeMismatchError{Got: contentType, Want: h.mtype} }
   if contentLength == "" { return nil, errors.New("missing required content-length") }
   size, err := strconv.Atoi(contentLength)
   if err != nil || size < 0 { return nil, errors.New("invalid content-length") }
   data := h.rbuf
   if size > maxPrealloc && len(data) < size {                       // fix F5
     var buf bytes.Buffer
     if n, err := io.CopyN(&buf, h.rd, int64(size)); err != nil {
       if err == io.EOF && n > 0 { err = io.ErrUnexpectedEOF }
       return nil, err }
     return buf.Bytes(), contentErr }
   if len(data) < size || len(data) > (1<<20) && size < len(data)/4 {
     data = make([]byte, size*2); h.rbuf = data }
   if _, err := io.ReadFull(h.rd, data[:size]); err != nil { return nil, err }
   return data[:size], contentErr *)
Definition recv_body (c : cfg) (want ct cl : bytes) (st : N) (s : bytes) : result N :=
  let cerr := if beq ct want then None else Some (EContentTypeMismatch ct) in
  match cl with
  | [] => Err EMissingLength st s
  | _ =>
      match atoi cl with
      | None => Err EInvalidLength st s
      | Some z =>
          if (z <? 0)%Z then Err EInvalidLength st s
          else
            let size := Z.to_N z in
            if fix_F5 c && (max_prealloc <? size) && (st <? size) then
              (* io.CopyN into a growing buffer; h.rbuf untouched *)
              match take_n size s with
              | (data, rest, true) => finish data cerr st rest
              | ([], rest, false) => Err EEOF st rest
              | (_, rest, false) => Err EUnexpectedEOF st rest
              end
            else
              let realloc := (st <? size) || ((shrink_above <? st) && (size <? st / 4)) in
              match (if realloc then make_slice (wrap64 (z * 2)) else Some st) with
              | None => Crash MakeSliceRange
              | Some st' =>
                  if st' <? size then Crash SliceBounds          (* data[:size] *)
                  else
                    (* io.ReadFull: 0 bytes wanted -> no read at all; EOF if nothing was
                       read, ErrUnexpectedEOF if the stream ended part way *)
                    match take_n size s with
                    | (data, rest, true) => finish data cerr st' rest
                    | ([], rest, false) => Err EEOF st' rest
                    | (_, rest, false) => Err EUnexpectedEOF st' rest
                    end
              end
      end
  end.

Definition recv_strict (c : cfg) (want : bytes) (st : N) (s : bytes) : result N :=
  match hdr_loop (S (length s)) [] [] s with
  | HOutOfFuel => OutOfFuel
  | HErr e rest => Err e st rest
  | HDone ct cl rest => recv_body c want ct cl st rest
  end.

(* func (o opthdr) Recv() ([]byte, error) {
     msg, err := o.hdr.Recv()
     if v, ok := err.( *ContentTypeMismatchError); ok && v.Got == "" { err = nil }
     return msg, err } *)
Definition recv (c : cfg) (p : policy) (want : bytes) (st : N) (s : bytes) : result N :=
  match p, recv_strict c want st s with
  | Optional, OkWithErr r (EContentTypeMismatch []) st' rest => Ok r st' rest
  | _, x => x
  end.

Definition recv_all (c : cfg) (p : policy) (want : bytes) (st : N) (s : bytes) : list item :=
  recv_all_from (recv c p want) st s.

(* the media types for which the round trip is claimed: what the receiver compares is the
   TRIMMED header value, and a line feed would end the header line *)
Definition usable_mime (mt : bytes) : bool := beq (trim_space mt) mt && negb (mem 10 mt).
