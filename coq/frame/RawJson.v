(* RawJson: model of channel/json.go (RawJSON framing).

   type jsonc struct{ wc io.WriteCloser; dec *json.Decoder; buf json.RawMessage }

   json.Decoder.Decode(&RawMessage) on the stream (decode.go/stream.go, checked against
   Go): if an earlier call failed the decoder returns that same error for ever (dec.err is
   sticky: syntax errors, io.EOF and io.ErrUnexpectedEOF alike).  Otherwise it skips white
   space; if the stream ends there the error is io.EOF.  Otherwise it scans one value
   with the scanner of JsonScan.v: a value that is complete yields its raw bytes (without
   surrounding white space); objects, arrays, strings and literals end at their last byte,
   a number ends before the first byte that cannot continue it or at the end of the stream
   ({}{}  and  1 2  and  12 followed by a string  and  truefalse  and  01  are two values each).  A byte that cannot
   continue the value is a *json.SyntaxError; the end of the stream inside a value is
   io.ErrUnexpectedEOF.  Nothing else about the decoder is modelled (Token API unused).

   Channel state = the sticky error.  Definitions only; proofs in RawJsonProofs.v. *)
From Coq Require Import List NArith Bool Lia.
From JV Require Import Bytes FrameBase JsonScan.
Import ListNotations.
Local Open Scope N_scope.

Definition s_null : bytes := [110; 117; 108; 108].
Definition is_null (m : bytes) : bool := beq m s_null.

(* func (c jsonc) Send(msg []byte) error {
     if len(msg) == 0 || isNull(msg) { _, err := io.WriteString(c.wc, "null\n"); return err }
     _, err := c.wc.Write(msg); return err } *)
Definition send (r : bytes) : send_result :=
  if is_nil r || is_null r then Sent (s_null ++ [10]) else Sent r.

(* func (c jsonc) Recv() ([]byte, error) {
     c.buf = c.buf[:0]
     if err := c.dec.Decode(&c.buf); err != nil { return nil, err
     } else if isNull(c.buf) { return nil, nil }
     return c.buf, nil } *)
Definition recv (st : option errkind) (s : bytes) : result (option errkind) :=
  match st with
  | Some e => Err e st s
  | None =>
      match skip_ws s with
      | [] => Err EEOF (Some EEOF) s
      | v =>
          match scan v with
          | Done rest =>
              let raw := span_before v rest in
              Ok (if is_null raw then [] else raw) None rest
          | Syntax => Err EJSONSyntax (Some EJSONSyntax) s
          | Trunc => Err EUnexpectedEOF (Some EUnexpectedEOF) s
          | NoFuel => OutOfFuel
          end
      end
  end.

Definition recv_all (s : bytes) : list item := recv_all_from recv None s.
