(* HdrSpecProofs: C12 soundness of the header framings' Recv (model Hdr.v) with respect to the
   reference grammar HdrSpec, and the content-type policy. *)
From Coq Require Import List NArith ZArith Bool Lia Arith.
From JV Require Import Bytes FrameBase FrameBaseProofs Hdr HdrProofs HdrSpec.
Import ListNotations.
Local Open Scope N_scope.
Import HdrSpec.

Lemma is_crlf_eol c : is_crlf c = true <-> is_eol_byte c.
Proof.
  unfold is_crlf, is_eol_byte. rewrite orb_true_iff, !N.eqb_eq. tauto.
Qed.

Lemma content_of_trim raw : content raw (trim_right_crlf raw).
Proof.
  destruct (trim_right_crlf_spec raw) as [t [Hs [Ht Hl]]].
  exists t. split; [exact Hs|]. split.
  - eapply Forall_impl; [|exact Ht]. intros c Hc. now apply is_crlf_eol.
  - intros l c E Hc. apply is_crlf_eol in Hc. rewrite (Hl l c E) in Hc. discriminate.
Qed.

Lemma lower_is_ascii_lower name : map lower name = ascii_lower name.
Proof. reflexivity. Qed.

(* the header loop computes the field values of a header block of the grammar *)
Lemma hdr_loop_headers : forall f ct cl s ct' cl' rest,
  hdr_loop f ct cl s = HDone ct' cl' rest ->
  exists fs, headers s fs rest /\
    ct' = match field key_type fs with Some v => v | None => ct end /\
    cl' = match field key_length fs with Some v => v | None => cl end.
Proof.
  induction f as [|f IH]; intros ct cl s ct' cl' rest H; [discriminate|].
  rewrite hdr_loop_S in H. destruct (read_string 10 s) as [[raw rest0] found] eqn:E.
  destruct (read_string_spec _ _ _ _ _ E) as [Hs [Ht Hfl]].
  destruct (negb found && is_nil raw) eqn:En; [discriminate|].
  assert (Hnl : next_line s raw rest0).
  { split; [exact Hs|]. destruct found.
    - destruct (Ht eq_refl) as [b [Hb Hnb]]. split; [subst raw; destruct b; discriminate|]. left. eauto.
    - destruct (Hfl eq_refl) as [Hr Hn]. split; [|right; auto].
      destruct raw; [discriminate En | discriminate]. }
  pose proof (content_of_trim raw) as Hc.
  destruct (is_nil (trim_right_crlf raw)) eqn:Eb.
  - apply is_nil_true in Eb. rewrite Eb in Hc. inversion H; subst.
    exists []. split; [eapply HBlank; eauto|]. split; reflexivity.
  - destruct (split_colon (trim_right_crlf raw)) as [[name value]|] eqn:Esc; [|discriminate].
    destruct (split_colon_spec _ _ _ Esc) as [Hline Hnc]. rewrite Hline in Hc.
    assert (G : forall X Y, hdr_loop f X Y rest0 = HDone ct' cl' rest ->
      exists fs, headers s ((name, value) :: fs) rest /\
        ct' = match field key_type fs with Some v => v | None => X end /\
        cl' = match field key_length fs with Some v => v | None => Y end).
    { intros X Y HX. destruct (IH _ _ _ _ _ _ HX) as [fs [Hh [H1 H2]]].
      exists fs. split; [eapply HField; eauto | auto]. }
    destruct (beq (ascii_lower name) s_content_type) eqn:E1.
    + destruct (G _ _ H) as [fs [Hh [H1 H2]]]. exists ((name, value) :: fs). split; [exact Hh|].
      apply beq_eq in E1. cbn [field]. rewrite lower_is_ascii_lower, E1.
      change (beq s_content_type key_type) with true. change (beq s_content_type key_length) with false.
      split.
      * rewrite H1. destruct (field key_type fs); reflexivity.
      * rewrite H2. destruct (field key_length fs); reflexivity.
    + destruct (beq (ascii_lower name) s_content_length) eqn:E2.
      * destruct (G _ _ H) as [fs [Hh [H1 H2]]]. exists ((name, value) :: fs). split; [exact Hh|].
        cbn [field]. rewrite lower_is_ascii_lower.
        change key_type with s_content_type. change key_length with s_content_length.
        rewrite E1, E2. split.
        -- rewrite H1. change key_type with s_content_type. destruct (field s_content_type fs); reflexivity.
        -- rewrite H2. change key_length with s_content_length. destruct (field s_content_length fs); reflexivity.
      * destruct (G _ _ H) as [fs [Hh [H1 H2]]]. exists ((name, value) :: fs). split; [exact Hh|].
        cbn [field]. rewrite lower_is_ascii_lower.
        change key_type with s_content_type. change key_length with s_content_length.
        rewrite E1, E2. split.
        -- rewrite H1. change key_type with s_content_type. destruct (field s_content_type fs); reflexivity.
        -- rewrite H2. change key_length with s_content_length. destruct (field s_content_length fs); reflexivity.
Qed.

(* strconv.Atoi as modelled accepts exactly the decimals of the grammar *)
Lemma digits_val_dec : forall ds a n,
  digits_val ds a = Some n -> Forall digit ds /\ fold_left (fun a c => a * 10 + (c - 48)) ds a = n.
Proof.
  induction ds as [|c ds IH]; intros a n H; cbn in H.
  - inversion H. split; [constructor | reflexivity].
  - destruct (Hdr.is_digit c) eqn:Ed; [|discriminate].
    destruct (IH _ _ H) as [H1 H2]. split; [|exact H2].
    constructor; [|exact H1]. apply is_digit_range in Ed. exact Ed.
Qed.

Lemma atoi_decimal v z : atoi v = Some z -> (0 <= z)%Z -> decimal v (Z.to_N z).
Proof.
  unfold atoi. intros H Hz.
  assert (K : forall (neg : bool) (ds : bytes),
    match ds with
    | [] => None
    | _ :: _ =>
        match digits_val ds 0 with
        | Some n =>
            let z := if neg then (- Z.of_N n)%Z else Z.of_N n in
            if (z <? min_int)%Z || (max_int <? z)%Z then None else Some z
        | None => None
        end
    end = Some z ->
    ds <> [] /\ Forall digit ds /\ dec_value ds = Z.to_N z /\ (neg = true -> Z.to_N z = 0) /\ Z.to_N z <= 9223372036854775807).
  { intros neg ds K. destruct ds as [|d0 ds']; [discriminate|]. remember (d0 :: ds') as ds.
    destruct (digits_val ds 0) as [n|] eqn:Ed; [|discriminate].
    destruct (digits_val_dec _ _ _ Ed) as [Hall Hval]. cbv zeta in K.
    destruct ((_ <? min_int)%Z || (max_int <? _)%Z) eqn:Er; [discriminate|].
    apply orb_false_iff in Er. destruct Er as [Er1 Er2].
    apply Z.ltb_ge in Er1. apply Z.ltb_ge in Er2. unfold min_int, max_int in *.
    inversion K; subst z. split; [subst; discriminate|]. split; [exact Hall|].
    unfold dec_value. rewrite Hval. destruct neg.
    - assert (n = 0) by lia. subst n. cbn. repeat split; auto; lia.
    - rewrite N2Z.id. repeat split; auto; [discriminate | lia]. }
  destruct v as [|c r].
  - discriminate.
  - destruct (N.eqb_spec c 43) as [->|N1].
    + destruct (K false r H) as [K1 [K2 [K3 [K4 K5]]]]. exists [43], r. repeat split; auto.
    + destruct (N.eqb_spec c 45) as [->|N2].
      * destruct (K true r H) as [K1 [K2 [K3 [K4 K5]]]]. exists [45], r. repeat split; auto.
      * destruct (K false (c :: r) H) as [K1 [K2 [K3 [K4 K5]]]]. exists [], (c :: r). repeat split; auto.
Qed.

(* what the strict Recv returns, in terms of the grammar *)
Lemma recv_strict_frame want st s : st <= buf_bound ->
  match recv_strict cfg_fixed want st s with
  | Ok r _ rest => frame s want r rest
  | OkWithErr r e _ rest => exists ct, frame s ct r rest /\ e = EContentTypeMismatch ct /\ ct <> want
  | _ => True
  end.
Proof.
  intros Hst. rewrite recv_strict_unfold.
  destruct (hdr_loop (S (length s)) [] [] s) as [ct cl body|e body|] eqn:El; [|exact I|exact I].
  destruct (hdr_loop_headers _ _ _ _ _ _ _ El) as [fs [Hh [Hct Hcl]]].
  destruct cl as [|c0 cl0] eqn:Ecl; [exact I|]. rewrite <- Ecl in *.
  destruct (atoi cl) as [z|] eqn:Ea.
  2:{ unfold recv_body. rewrite Ea. subst cl. exact I. }
  destruct (Z.ltb_spec z 0) as [Hneg|Hpos].
  { unfold recv_body. rewrite Ea. subst cl. cbv beta iota. destruct (Z.ltb_spec z 0); [exact I|lia]. }
  destruct (recv_body_valid want ct cl st body z Hst) as [st' [Hst' E]]; auto; [subst; discriminate|].
  rewrite E. unfold body_outcome. destruct (take_n (Z.to_N z) body) as [[a r'] ok] eqn:Et.
  destruct (take_n_spec _ _ _ _ _ Et) as [Hs [Hok _]].
  assert (Hfield : field key_length fs = Some cl).
  { destruct (field key_length fs) as [v|]; [now subst|]. subst cl. discriminate. }
  assert (Hfr : ok = true -> frame s (ctype fs) a r').
  { intros ->. exists fs, body, cl, (Z.to_N z). repeat split; auto. now apply atoi_decimal. }
  assert (Hctype : ct = ctype fs).
  { unfold ctype. destruct (field key_type fs); auto. }
  destruct ok.
  - destruct a; unfold finish; destruct (beq ct want) eqn:Eb.
    + apply beq_eq in Eb. rewrite <- Eb, Hctype. now apply Hfr.
    + exists ct. split; [rewrite Hctype; now apply Hfr|]. split; auto. now apply beq_neq.
    + apply beq_eq in Eb. rewrite <- Eb, Hctype. now apply Hfr.
    + exists ct. split; [rewrite Hctype; now apply Hfr|]. split; auto. now apply beq_neq.
  - destruct a; exact I.
Qed.

(* C12 soundness: a record returned by Recv is the payload of a frame of the documented
   format at the front of the stream, the rest is what follows that frame; the content type
   is treated as documented (StrictHeader: must match; Header/LSP: may be absent; a mismatch is
   reported WITH the record) *)
Theorem hdr_sound : forall p want st s,
  st <= buf_bound ->
  match recv cfg_fixed p want st s with
  | Ok r _ rest => exists ct, frame s ct r rest /\ (ct = want \/ (p = Optional /\ ct = []))
  | OkWithErr r e _ rest =>
      exists ct, frame s ct r rest /\ e = EContentTypeMismatch ct /\ ct <> want /\ (p = Optional -> ct <> [])
  | _ => True
  end.
Proof.
  intros p want st s Hst. pose proof (recv_strict_frame want st s Hst) as H. unfold recv.
  destruct p.
  - destruct (recv_strict cfg_fixed want st s) as [r st' rest|r e st' rest|e st' rest|k|]; auto.
    + exists want. auto.
    + destruct H as [ct [H1 [H2 H3]]]. exists ct. repeat split; auto. discriminate.
  - destruct (recv_strict cfg_fixed want st s) as [r st' rest|r e st' rest|e st' rest|k|]; auto.
    + exists want. auto.
    + destruct H as [ct [H1 [H2 H3]]]. subst e. destruct ct as [|c0 ct'].
      * exists []. split; auto.
      * exists (c0 :: ct'). repeat split; auto. discriminate.
Qed.

(* non-vacuity: the documentation's own example, lower-case names, an unknown field, LF-only
   line ends, and a mismatching type *)
Example hdr_sound_nonvacuous :
  (* content-length:4 LF x-other: 1 LF LF 123 LF, then more *)
  recv cfg_fixed Optional lsp_mime 0
    ([99;111;110;116;101;110;116;45;108;101;110;103;116;104;58;52;10] ++ [120;45;111;58;32;49;10] ++ [10] ++ [49;50;51;10] ++ [65])
  = Ok [49;50;51;10] 8 [65] /\
  (* Content-Type: y CRLF Content-Length: 1 CRLF CRLF a  on StrictHeader("x") *)
  recv cfg_fixed Strict [120] 0
    (s_content_type_hdr ++ [121] ++ crlf ++ s_content_length_hdr ++ [49] ++ crlf ++ crlf ++ [97])
  = OkWithErr [97] (EContentTypeMismatch [121]) 2 [].
Proof. vm_compute. auto. Qed.

(* ---- completeness: every frame of the grammar is accepted (the header rules) ---------- *)

Lemma trim_right_crlf_content raw line : content raw line -> trim_right_crlf raw = line.
Proof.
  intros [t [-> [Ht Hl]]].
  rewrite trim_right_crlf_app_crlf.
  2:{ eapply Forall_impl; [|exact Ht]. intros c Hc. now apply is_crlf_eol. }
  destruct line as [|x line'] eqn:E; [reflexivity|]. rewrite <- E in *.
  assert (Hne : line <> []) by (subst; discriminate).
  destruct (nonempty_snoc _ Hne) as [l [c Ec]]. rewrite Ec. apply trim_right_crlf_snoc.
  specialize (Hl l c Ec). destruct (is_crlf c) eqn:Ecr; auto. apply is_crlf_eol in Ecr. contradiction.
Qed.

Lemma headers_hdr_loop : forall s fs rest,
  headers s fs rest -> forall f ct cl, (length s < f)%nat ->
  hdr_loop f ct cl s = HDone (match field key_type fs with Some v => v | None => ct end)
                             (match field key_length fs with Some v => v | None => cl end) rest.
Proof.
  induction 1 as [s raw rest Hnl Hc | s raw s' name value fs rest Hnl Hc Hnc Hh IH]; intros f ct cl Hf.
  - destruct f as [|f]; [lia|]. rewrite hdr_loop_S.
    destruct Hnl as [-> [Hne [[b [-> Hb]]|[-> Hn]]]].
    + rewrite <- app_assoc. cbn [app]. rewrite read_string_found by assumption. cbn [negb andb].
      rewrite (trim_right_crlf_content _ _ Hc). reflexivity.
    + rewrite app_nil_r. rewrite read_string_nodelim by assumption.
      replace (negb false && is_nil raw) with false by (destruct raw; [congruence|reflexivity]).
      rewrite (trim_right_crlf_content _ _ Hc). reflexivity.
  - destruct f as [|f]; [lia|]. rewrite hdr_loop_S.
    assert (Hstep : read_string 10 s = (raw, s', true) \/ read_string 10 s = (raw, s', false)).
    { destruct Hnl as [-> [Hne [[b [-> Hb]]|[-> Hn]]]].
      - left. rewrite <- app_assoc. cbn [app]. now apply read_string_found.
      - right. rewrite app_nil_r. now apply read_string_nodelim. }
    assert (Hlen : (length s' < f)%nat).
    { destruct Hnl as [-> [Hne _]]. rewrite app_length in Hf. destruct raw; [congruence|]. cbn in Hf. lia. }
    assert (Hraw : is_nil raw = false) by (destruct Hnl as [_ [Hne _]]; destruct raw; [congruence|reflexivity]).
    assert (Hrs : (let '(raw0, rest0, found) := read_string 10 s in
                   if negb found && is_nil raw0 then HErr EEOF rest0
                   else if is_nil (trim_right_crlf raw0) then HDone ct cl rest0
                   else match split_colon (trim_right_crlf raw0) with
                        | Some (name, value) =>
                            if beq (ascii_lower name) s_content_type then hdr_loop f (trim_space value) cl rest0
                            else if beq (ascii_lower name) s_content_length then hdr_loop f ct (trim_space value) rest0
                            else hdr_loop f ct cl rest0
                        | None => HErr EInvalidHeader rest0
                        end) =
                  if beq (ascii_lower name) s_content_type then hdr_loop f (trim_space value) cl s'
                  else if beq (ascii_lower name) s_content_length then hdr_loop f ct (trim_space value) s'
                  else hdr_loop f ct cl s').
    { destruct Hstep as [-> | ->]; rewrite Hraw, ?andb_false_r; cbn [negb andb];
        rewrite (trim_right_crlf_content _ _ Hc);
        (replace (is_nil (name ++ 58 :: value)) with false by (destruct name; reflexivity));
        rewrite split_colon_found by assumption; reflexivity. }
    rewrite Hrs. cbn [field]. change (map lower name) with (ascii_lower name).
    change key_type with s_content_type in *. change key_length with s_content_length in *.
    destruct (beq (ascii_lower name) s_content_type) eqn:E1.
    + rewrite IH by assumption. apply beq_eq in E1. rewrite E1.
      change (beq s_content_type s_content_length) with false.
      f_equal; [destruct (field s_content_type fs) | destruct (field s_content_length fs)]; reflexivity.
    + destruct (beq (ascii_lower name) s_content_length) eqn:E2; rewrite IH by assumption;
        f_equal; [destruct (field s_content_type fs) | destruct (field s_content_length fs)
                 |destruct (field s_content_type fs) | destruct (field s_content_length fs)]; reflexivity.
Qed.

Lemma dec_digits_val : forall ds a,
  Forall digit ds -> digits_val ds a = Some (fold_left (fun a c => a * 10 + (c - 48)) ds a).
Proof.
  induction ds as [|c ds IH]; intros a H; [reflexivity|]. inversion H as [|? ? Hc Hds]; subst.
  cbn [digits_val fold_left].
  assert (Hdr.is_digit c = true) as ->.
  { unfold Hdr.is_digit, digit in *. destruct (N.leb_spec 48 c), (N.leb_spec c 57); auto; lia. }
  now apply IH.
Qed.

Lemma decimal_atoi v n : decimal v n -> atoi v = Some (Z.of_N n) /\ v <> [].
Proof.
  intros [sign [ds [-> [Hne [Hall [Hval [Hsign Hmax]]]]]]].
  pose proof (dec_digits_val ds 0 Hall) as Hd. unfold dec_value in Hval. rewrite Hval in Hd.
  assert (Hrange : ((Z.of_N n <? min_int)%Z || (max_int <? Z.of_N n)%Z) = false).
  { unfold min_int, max_int. apply orb_false_iff. split; apply Z.ltb_ge; lia. }
  assert (K : forall neg : bool, (neg = true -> n = 0) ->
     match ds with
     | [] => None
     | _ :: _ =>
         match digits_val ds 0 with
         | Some n0 => let z := if neg then (- Z.of_N n0)%Z else Z.of_N n0 in
                      if (z <? min_int)%Z || (max_int <? z)%Z then None else Some z
         | None => None
         end
     end = Some (Z.of_N n)).
  { intros neg Hneg. destruct ds as [|d0 ds']; [congruence|]. rewrite Hd. cbv zeta. destruct neg.
    - rewrite (Hneg eq_refl). reflexivity.
    - now rewrite Hrange. }
  destruct Hsign as [->|[->|[-> ->]]].
  - split. 2:{ destruct ds; [congruence|discriminate]. }
    cbn [app]. unfold atoi. destruct ds as [|d0 ds'] eqn:Eds; [congruence|].
    assert (H0 : digit d0) by (now inversion Hall). unfold digit in H0.
    destruct (N.eqb_spec d0 43); [lia|]. destruct (N.eqb_spec d0 45); [lia|].
    apply (K false). discriminate.
  - split; [|discriminate]. cbn [app]. unfold atoi. change (43 =? 43) with true. cbv beta iota.
    apply (K false). discriminate.
  - split; [|discriminate]. cbn [app]. unfold atoi. change (45 =? 43) with false. change (45 =? 45) with true.
    cbv beta iota. apply (K true). auto.
Qed.

(* C12 header rules: EVERY frame of the grammar - whatever the case of the field names, with
   unknown fields, duplicate fields (the last wins), LF or CR LF line ends, white space around
   values, a signed length - is accepted, and the content type is treated as documented:
   StrictHeader returns the record WITH a mismatch error unless the type matches; Header/LSP
   in addition accept an absent (empty) type *)
Theorem hdr_complete : forall p want st s ct r rest,
  st <= buf_bound -> frame s ct r rest ->
  exists st', st' <= buf_bound /\
    recv cfg_fixed p want st s =
    if beq ct want || match p with Optional => is_nil ct | Strict => false end
    then Ok r st' rest else OkWithErr r (EContentTypeMismatch ct) st' rest.
Proof.
  intros p want st s ct r rest Hst [fs [body [v [n [Hh [Hf [Hd [-> [Hn ->]]]]]]]]].
  destruct (decimal_atoi v n Hd) as [Ha Hv].
  destruct (recv_body_valid want (ctype fs) v st (r ++ rest) (Z.of_N n) Hst Hv Ha) as [st' [Hst' E]]; [lia|].
  exists st'. split; auto.
  assert (Hs : recv_strict cfg_fixed want st s =
               finish r (if beq (ctype fs) want then None else Some (EContentTypeMismatch (ctype fs))) st' rest).
  { rewrite recv_strict_unfold. rewrite (headers_hdr_loop _ _ _ Hh) by lia.
    rewrite Hf. fold (ctype fs). rewrite E. unfold body_outcome.
    rewrite N2Z.id, <- Hn, take_n_app. destruct r; reflexivity. }
  unfold recv. rewrite Hs. unfold finish.
  destruct (beq (ctype fs) want) eqn:Eb; cbn [orb].
  - destruct p; reflexivity.
  - destruct p; [reflexivity|]. destruct (ctype fs); reflexivity.
Qed.

(* non-vacuity of the hypothesis [frame]: mixed-case name, signed length, LF line end, an
   unknown field, CR LF line ends (the frame is obtained from hdr_sound) *)
Definition stream_mixed : bytes :=
  (* cOnTeNt-LeNgTh:+1 LF X: y CR LF CR LF a *)
  [99;79;110;84;101;78;116;45;76;101;78;103;84;104;58;43;49;10] ++ [88;58;32;121;13;10] ++ [13;10] ++ [97].

Example hdr_complete_nonvacuous : exists ct, frame stream_mixed ct [97] [].
Proof.
  assert (Hb : 0 <= buf_bound) by (unfold buf_bound; lia).
  pose proof (hdr_sound Optional [] 0 stream_mixed Hb) as H.
  assert (E : recv cfg_fixed Optional [] 0 stream_mixed = Ok [97] 2 []) by (vm_compute; reflexivity).
  rewrite E in H. destruct H as [ct [H _]]. exists ct. exact H.
Qed.
