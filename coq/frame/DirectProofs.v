(* DirectProofs: C11 for channel.Direct (model: Direct.v): FIFO, then io.EOF after Close. *)
From Coq Require Import List NArith Bool Lia Arith.
From JV Require Import Bytes FrameBase Direct.
Import ListNotations.
Local Open Scope N_scope.

Lemma dsend_all_open q rs :
  dsend_all {| dqueue := q; dclosed := false |} rs = Some {| dqueue := q ++ rs; dclosed := false |}.
Proof.
  revert q. induction rs as [|r rs IH]; intros q; cbn.
  - now rewrite app_nil_r.
  - rewrite IH. now rewrite <- app_assoc.
Qed.

Lemma drecv_all_closed q fuel :
  (length q + 2 <= fuel)%nat ->
  drecv_all fuel false {| dqueue := q; dclosed := true |} = map IRec q ++ [IErr EEOF].
Proof.
  revert fuel. induction q as [|r q IH]; intros fuel Hf.
  - destruct fuel as [|[|f]]; cbn in Hf; try lia. reflexivity.
  - destruct fuel as [|f]; [cbn in Hf; lia|]. cbn. f_equal. apply IH. cbn in Hf. lia.
Qed.

(* everything sent before Close is received, in order and unchanged; then io.EOF, for ever;
   Send after Close fails; a second Close is the only crash *)
Theorem direct_fifo : forall rs,
  exists st st',
    dsend_all dinit rs = Some st /\ dclose st = DClosed st' /\
    drecv_all (length rs + 2) false st' = map IRec rs ++ [IErr EEOF] /\
    (forall r, dsend st' r = DSendErr).
Proof.
  intros rs. exists {| dqueue := rs; dclosed := false |}, {| dqueue := rs; dclosed := true |}.
  split; [apply (dsend_all_open [] rs)|]. split; [reflexivity|]. split; [|reflexivity].
  now apply drecv_all_closed.
Qed.

(* before Close an empty direction blocks (no answer), it does not report EOF *)
Lemma direct_open_blocks : drecv dinit = DBlocked.
Proof. reflexivity. Qed.

Example direct_fifo_nonvacuous :
  exists st st', dsend_all dinit [[1]; []; [2; 3]] = Some st /\ dclose st = DClosed st' /\
                 drecv_all 5 false st' = [IRec [1]; IRec []; IRec [2; 3]; IErr EEOF].
Proof. do 2 eexists. repeat split. Qed.
