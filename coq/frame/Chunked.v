(* Chunked: the stream framings behind a transport that FRAGMENTS the byte stream.

   The frozen models (Split.v, Hdr.v) are functions of the concatenated stream; that the real
   Recv does not depend on how the transport cuts the stream into reads is there a trusted
   contract of bufio.Reader / io.ReadFull (checked by the harness).  Here that contract is
   MODELLED and the independence is proved (ChunkedProofs.v):

   * the transport is a list of non-empty chunks: one Read of the underlying io.Reader returns
     at most the next chunk, cut to the space offered (the rest of the chunk stays in front);
     when all chunks are gone Read returns 0, io.EOF; with [eager] the last bytes are returned
     TOGETHER with io.EOF (both behaviours are allowed by io.Reader, the harness's chunkReader
     has the same switch);
   * bufio.Reader (bufio.go) is its unread buffered bytes [rbuf] (at most the buffer size k),
     the transport [rsrc], and the pending error [rerr] (b.err: set by a fill that saw io.EOF,
     cleared when reported, readErr).  fill() slides the unread bytes to the front and does one
     Read into the free space k - len(rbuf);
   * ReadSlice(delim): search the buffer; else report a pending error with all buffered bytes;
     else ErrBufferFull with the full buffer; else fill and repeat.

   The chunked functions return [result (St * rdr)]: the channel state paired with the reader
   after the call; the [rest] component is by construction the stream still to come
   ([stream r']), so that results can be compared with the stream models by [forget].

   Definitions only. *)
From Coq Require Import List NArith ZArith Bool Lia.
From JV Require Import Bytes FrameBase Split Hdr.
Import ListNotations.
Local Open Scope N_scope.

Record rdr := { rbuf : bytes; rsrc : list bytes; rerr : bool }.

(* everything the reader will still deliver *)
Definition stream (r : rdr) : bytes := rbuf r ++ concat (rsrc r).

Definition rinit (chunks : list bytes) : rdr := {| rbuf := []; rsrc := chunks; rerr := false |}.

(* one Read(p) of the transport with len(p) = space > 0: (bytes, transport after, io.EOF returned) *)
Definition src_read (eager : bool) (space : nat) (src : list bytes) : bytes * list bytes * bool :=
  match src with
  | [] => ([], [], true)
  | c :: cs =>
      match skipn space c with
      | [] => (firstn space c, cs, eager && is_nil cs)
      | b => (firstn space c, b :: cs, false)
      end
  end.

(* b.fill(): only called with no pending error and a buffer that is not full *)
Definition fill (eager : bool) (k : N) (r : rdr) : rdr :=
  let '(a, src', e) := src_read eager (N.to_nat k - length (rbuf r)) (rsrc r) in
  {| rbuf := rbuf r ++ a; rsrc := src'; rerr := e |}.

(* func (b *Reader) ReadSlice(delim byte) (line []byte, err error) {
     s := 0
     for {
       if i := bytes.IndexByte(b.buf[b.r+s:b.w], delim); i >= 0 { i += s; line = b.buf[b.r:b.r+i+1]; b.r += i+1; break }
       if b.err != nil { line = b.buf[b.r:b.w]; b.r = b.w; err = b.readErr(); break }
       if b.Buffered() >= len(b.buf) { b.r = b.w; line = b.buf; err = ErrBufferFull; break }
       s = b.w - b.r
       b.fill()
     } ... }
   (the search start s only avoids rescanning bytes known to hold no delimiter) *)
Fixpoint cread_slice (fuel : nat) (eager : bool) (d k : N) (r : rdr) : option (bytes * rdr * rs_status) :=
  match fuel with
  | O => None
  | S f =>
      match read_string d (rbuf r) with
      | (a, rest, true) => Some (a, {| rbuf := rest; rsrc := rsrc r; rerr := rerr r |}, RSFound)
      | (a, _, false) =>
          if rerr r then Some (a, {| rbuf := []; rsrc := rsrc r; rerr := false |}, RSEOF)
          else if k <=? N.of_nat (length a) then Some (a, {| rbuf := []; rsrc := rsrc r; rerr := false |}, RSFull)
          else cread_slice f eager d k (fill eager k r)
      end
  end.

(* every fill but the last takes at least one byte from the transport *)
Definition slice_fuel (r : rdr) : nat := S (S (length (concat (rsrc r)))).

(* ---- Split.Recv on the chunked reader (the code of Split.recv_loop, ReadSlice replaced) ---- *)

Fixpoint crecv_loop (c : cfg) (fuel : nat) (eager : bool) (b k : N) (acc : list bytes) (r : rdr)
  : result (unit * rdr) :=
  match fuel with
  | O => OutOfFuel
  | S f =>
      match cread_slice (slice_fuel r) eager b k r with
      | None => OutOfFuel
      | Some (chunk, r', RSFull) => crecv_loop c f eager b k (chunk :: acc) r'
      | Some (chunk, r', RSEOF) =>
          let line := buf_bytes (chunk :: acc) in
          if fix_F6 c then
            match line with
            | [] => Err EEOF (tt, r') (stream r')
            | _ => OkWithErr line EEOF (tt, r') (stream r')
            end
          else
            match line with
            | [] => Err EEOF (tt, r') (stream r')
            | _ => OkWithErr (removelast line) EEOF (tt, r') (stream r')
            end
      | Some (chunk, r', RSFound) =>
          Ok (removelast (buf_bytes (chunk :: acc))) (tt, r') (stream r')
      end
  end.

(* one Recv; the second argument (the stream of the stream models) is not looked at: the
   bytes come from the reader in the state *)
Definition crecv_k (c : cfg) (eager : bool) (b k : N) (st : unit * rdr) (_ : bytes) : result (unit * rdr) :=
  crecv_loop c (S (length (stream (snd st)))) eager b k [] (snd st).

Definition crecv (c : cfg) (eager : bool) (b : N) := crecv_k c eager b bufio_size.

(* all Recv calls on a transport that delivers [chunks]: the observation of FrameBase.recv_all_loop *)
Definition crecv_all (c : cfg) (eager : bool) (b : N) (chunks : list bytes) : list item :=
  recv_all_loop (crecv c eager b) (S (S (length (concat chunks)))) None (tt, rinit chunks) [].

(* comparison with the stream models: drop the reader from the state *)
Definition forget {St} (x : result (St * rdr)) : result St :=
  match x with
  | Ok a st rest => Ok a (fst st) rest
  | OkWithErr a e st rest => OkWithErr a e (fst st) rest
  | Err e st rest => Err e (fst st) rest
  | Crash c => Crash c
  | OutOfFuel => OutOfFuel
  end.
