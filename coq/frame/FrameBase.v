(* FrameBase: what the framing models (channel/split.go, hdr.go, json.go) share.

   All framing models are functions of the CONCATENATED byte stream that the
   transport delivers; how the transport cuts it into reads is not a parameter.
   That independence is the documented contract of bufio.Reader, io.ReadFull,
   io.CopyN and json.Decoder, modelled below; it is trusted here (DESIGN.md
   section 9) and CHECKED on every run by the C11/C12 harness, which runs the
   real Recv behind a chunk-controlled io.Reader.

   Definitions only (executable, extracted); proofs are in FrameBaseProofs.v. *)
From Coq Require Import List NArith ZArith Bool Lia.
From JV Require Import Bytes.
Import ListNotations.
Local Open Scope N_scope.

(* Defect switches (DESIGN.md section 7).  cfg_fixed is the code as it is in /repo. *)
Record cfg := { fix_F5 : bool; fix_F6 : bool }.
Definition cfg_fixed : cfg := {| fix_F5 := true; fix_F6 := true |}.

(* The error values a Recv can return, as the small enum the harness canonicalises to. *)
Inductive errkind :=
| EEOF                                   (* io.EOF *)
| EUnexpectedEOF                         (* io.ErrUnexpectedEOF *)
| EContentTypeMismatch (got : bytes)     (* *channel.ContentTypeMismatchError, Got field *)
| EInvalidHeader                         (* "invalid header line" *)
| EMissingLength                         (* "missing required content-length" *)
| EInvalidLength                         (* "invalid content-length" *)
| EJSONSyntax                            (* *json.SyntaxError *)
| EOther.

Definition errkind_eqb (a b : errkind) : bool :=
  match a, b with
  | EEOF, EEOF | EUnexpectedEOF, EUnexpectedEOF | EInvalidHeader, EInvalidHeader
  | EMissingLength, EMissingLength | EInvalidLength, EInvalidLength
  | EJSONSyntax, EJSONSyntax | EOther, EOther => true
  | EContentTypeMismatch x, EContentTypeMismatch y => beq x y
  | _, _ => false
  end.

(* Go panics the properties are about. *)
Inductive crash :=
| MakeSliceRange      (* panic: runtime error: makeslice: len out of range *)
| SliceBounds.        (* panic: runtime error: slice bounds out of range *)

(* Outcome of one Recv on stream [s] in channel state [St]:
   the record, the error, the new channel state and the unconsumed stream. *)
Inductive result (St : Type) :=
| Ok (r : bytes) (st : St) (rest : bytes)                      (* record, nil *)
| OkWithErr (r : bytes) (e : errkind) (st : St) (rest : bytes) (* record AND non-nil error *)
| Err (e : errkind) (st : St) (rest : bytes)                   (* nil, error *)
| Crash (c : crash)
| OutOfFuel.
Arguments Ok {St}. Arguments OkWithErr {St}. Arguments Err {St}.
Arguments Crash {St}. Arguments OutOfFuel {St}.

(* Outcome of one Send: the bytes handed to the writer in ONE Write call, or a refusal
   (error returned, nothing written). *)
Inductive send_result := Sent (out : bytes) | Refused.

Fixpoint send_all (send : bytes -> send_result) (rs : list bytes) : option bytes :=
  match rs with
  | [] => Some []
  | r :: rs' => match send r, send_all send rs' with
                | Sent o, Some s => Some (o ++ s)
                | _, _ => None
                end
  end.

(* What the harness observes of one Recv. *)
Inductive item :=
| IRec (r : bytes)
| IRecErr (r : bytes) (e : errkind)
| IErr (e : errkind)
| ICrash (c : crash)
| IOutOfFuel.

Definition item_eqb (a b : item) : bool :=
  match a, b with
  | IRec x, IRec y => beq x y
  | IRecErr x e, IRecErr y f => beq x y && errkind_eqb e f
  | IErr e, IErr f => errkind_eqb e f
  | ICrash MakeSliceRange, ICrash MakeSliceRange | ICrash SliceBounds, ICrash SliceBounds => true
  | IOutOfFuel, IOutOfFuel => true
  | _, _ => false
  end.

(* The harness cannot tell a nil slice from an empty one: an empty record returned with an
   error is observed like a bare error. *)
Definition item_of_recerr (r : bytes) (e : errkind) : item :=
  match r with [] => IErr e | _ => IRecErr r e end.

(* an item ends the observation when it is a bare error (no payload bytes) equal to the
   item before it *)
Definition same_as_prev (prev : option item) (it : item) : bool :=
  match it, prev with
  | IErr _, Some p => item_eqb p it
  | _, _ => false
  end.

(* Repeated Recv until the first REPEATED error: a bare error (no payload bytes with it) that
   equals the item before it ends the observation and is not listed.  Items that carry
   payload never end it (they consume input).  A crash ends it.
   fuel = number of Recv calls allowed. *)
Section RecvAll.
  Context {St : Type}.
  Variable recv : St -> bytes -> result St.

  Fixpoint recv_all_loop (fuel : nat) (prev : option item) (st : St) (s : bytes) : list item :=
    match fuel with
    | O => [IOutOfFuel]
    | S f =>
        match recv st s with
        | Ok r st' rest => IRec r :: recv_all_loop f (Some (IRec r)) st' rest
        | OkWithErr r e st' rest =>
            if same_as_prev prev (item_of_recerr r e) then []
            else item_of_recerr r e :: recv_all_loop f (Some (item_of_recerr r e)) st' rest
        | Err e st' rest =>
            if same_as_prev prev (IErr e) then []
            else IErr e :: recv_all_loop f (Some (IErr e)) st' rest
        | Crash c => [ICrash c]
        | OutOfFuel => [IOutOfFuel]
        end
    end.

  (* every call but the last two consumes at least one byte (proved per framing) *)
  Definition recv_all_from (st : St) (s : bytes) : list item :=
    recv_all_loop (S (S (length s))) None st s.
End RecvAll.

(* ------------------------------------------------------------------------- *)
(* bufio.Reader (default size 4096) on the stream.

   ReadSlice(delim), documented contract: "reads until the first occurrence of delim in
   the input, returning a slice pointing at the bytes in the buffer.  If ReadSlice
   encounters an error before finding a delimiter, it returns all the data in the buffer
   and the error itself (often io.EOF).  ReadSlice fails with error ErrBufferFull if the
   buffer fills without a delim."  On the stream: through the first delim if it lies in
   the next [k] unread bytes; else the next [k] bytes with ErrBufferFull if that many
   remain; else the remainder with io.EOF.
   One corner is not determined by the stream alone: exactly [k] bytes remain, none a
   delimiter.  The real ReadSlice then returns them with EOF if the transport delivered
   EOF together with the last bytes, and with ErrBufferFull otherwise (the following call
   returns "", EOF).  The model says ErrBufferFull; both callers (split.Recv's loop and
   ReadString) produce the same result either way, and the harness exercises both. *)
Definition bufio_size : N := 4096.

Inductive rs_status := RSFound | RSFull | RSEOF.

Fixpoint read_slice (d : N) (k : N) (s : bytes) : bytes * bytes * rs_status :=
  match s with
  | [] => ([], [], if k =? 0 then RSFull else RSEOF)
  | c :: s' =>
      if k =? 0 then ([], s, RSFull)
      else if c =? d then ([c], s', RSFound)
      else let '(a, r, st) := read_slice d (N.pred k) s' in (c :: a, r, st)
  end.

(* ReadString(delim): "reads until the first occurrence of delim in the input, returning a
   string containing the data up to and including the delimiter.  If ReadString encounters
   an error before finding a delimiter, it returns the data read before the error and the
   error itself (often io.EOF)."  (data, rest, found) *)
Fixpoint read_string (d : N) (s : bytes) : bytes * bytes * bool :=
  match s with
  | [] => ([], [], false)
  | c :: s' =>
      if c =? d then ([c], s', true)
      else let '(a, r, f) := read_string d s' in (c :: a, r, f)
  end.

(* ReadString as bufio implements it: accumulation of ReadSlice over ErrBufferFull
   (collectFragments).  Shown equal to read_string in FrameBaseProofs.v. *)
Fixpoint read_string_collect (fuel : nat) (d k : N) (s : bytes) : option (bytes * bytes * bool) :=
  match fuel with
  | O => None
  | S f =>
      match read_slice d k s with
      | (a, r, RSFound) => Some (a, r, true)
      | (a, r, RSEOF) => Some (a, r, false)
      | (a, r, RSFull) =>
          match read_string_collect f d k r with
          | Some (a', r', fd) => Some (a ++ a', r', fd)
          | None => None
          end
      end
  end.

(* io.ReadFull(r, buf[:n]) / io.CopyN(dst, r, n): the next n bytes, or everything that is
   left when the stream is shorter.  (taken, rest, complete) *)
Fixpoint take_n (n : N) (s : bytes) : bytes * bytes * bool :=
  match s with
  | [] => ([], [], n =? 0)
  | c :: s' =>
      if n =? 0 then ([], s, true)
      else let '(a, r, ok) := take_n (N.pred n) s' in (c :: a, r, ok)
  end.

Definition is_nil {A} (l : list A) : bool := match l with [] => true | _ => false end.

Definition mem (b : N) (s : bytes) : bool := existsb (N.eqb b) s.

(* the prefix of [s] that precedes its suffix [rest] (|rest| <= |s|), without lengths *)
Fixpoint drop_len {A B} (k : list A) (s : list B) : list B :=
  match k, s with
  | _ :: k', _ :: s' => drop_len k' s'
  | _, _ => s
  end.
Fixpoint take_len {A B} (k : list A) (s : list B) : list B :=
  match k, s with
  | _ :: k', c :: s' => c :: take_len k' s'
  | _, _ => []
  end.
Definition span_before (s rest : bytes) : bytes := take_len (drop_len rest s) s.
