(* RawJsonProofs: C11 and C12 for the RawJSON framing (model: RawJson.v over the scanner of
   JsonScan.v).  The scanner facts (fuel sufficiency, prefix extension) are proved for all inputs
   in JsonScanProofs.v. *)
From Coq Require Import List NArith Bool Lia Arith.
From JV Require Import Bytes FrameBase FrameBaseProofs JsonScan JsonScanProofs RawJson.
Import ListNotations.
Local Open Scope N_scope.

Definition all_ws (j : bytes) : Prop := Forall (fun c => is_ws c = true) j.

Lemma skip_ws_app j v : all_ws j -> skip_ws (j ++ v) = skip_ws v.
Proof. induction 1 as [|c j Hc _ IH]; cbn; auto. now rewrite Hc. Qed.

Lemma skip_ws_all j : all_ws j -> skip_ws j = [].
Proof. induction 1 as [|c j Hc _ IH]; cbn; auto. now rewrite Hc. Qed.

(* records the round trip is claimed for: the empty record (sent as null LF, received empty)
   and every JSON object, array or string without outer white space (json_record, a boolean
   checker: the text starts with an opening brace, bracket or quote and Go's scanner grammar
   accepts exactly all of it).  Bare numbers and literals are excluded: two of them sent
   back to back are one token (12) or need a separator the framing does not add. *)
Definition legal (r : bytes) : Prop := r = [] \/ json_record r = true.

Definition enc (r : bytes) : bytes := if is_nil r || is_null r then s_null ++ [10] else r.

Lemma send_enc r : send r = Sent (enc r).
Proof. unfold send, enc. destruct (is_nil r || is_null r); reflexivity. Qed.

Lemma json_record_not_null r : json_record r = true -> is_nil r = false /\ is_null r = false.
Proof.
  intros H. destruct (json_record_head r H) as [c [t [-> [_ Hc]]]]. split; [reflexivity|].
  unfold is_null, s_null. cbn [beq]. destruct Hc as [-> | [-> | ->]]; reflexivity.
Qed.

Lemma enc_legal r : legal r -> enc r = match r with [] => s_null ++ [10] | _ => r end.
Proof.
  intros [->|H]; [reflexivity|]. destruct (json_record_not_null r H) as [H1 H2].
  unfold enc. rewrite H1, H2. destruct r; [discriminate|reflexivity].
Qed.

Lemma scan_null rest : scan (s_null ++ 10 :: rest) = Done (10 :: rest).
Proof. reflexivity. Qed.

Lemma recv_enc j r rest :
  all_ws j -> legal r ->
  exists j', recv None (j ++ enc r ++ rest) = Ok r None (j' ++ rest) /\ all_ws j'.
Proof.
  intros Hj Hl. rewrite (enc_legal r Hl). destruct Hl as [->|H].
  - exists [10]. split; [|repeat constructor].
    unfold recv. rewrite skip_ws_app by assumption.
    change (skip_ws ((s_null ++ [10]) ++ rest)) with (s_null ++ 10 :: rest).
    cbn [s_null app]. change (110 :: 117 :: 108 :: 108 :: 10 :: rest) with (s_null ++ 10 :: rest).
    rewrite scan_null. rewrite span_before_app. reflexivity.
  - destruct (json_record_not_null r H) as [_ Hn].
    destruct (json_record_head r H) as [c [t [E [Hc _]]]]. subst r.
    exists []. split; [|constructor].
    assert (Hs : scan (c :: t ++ rest) = Done rest) by (apply (scan_self_delimiting (c :: t) rest H)).
    unfold recv. rewrite skip_ws_app by assumption. cbn [app skip_ws]. rewrite Hc, Hs.
    change (c :: t ++ rest) with ((c :: t) ++ rest). rewrite span_before_app, Hn. reflexivity.
Qed.

Lemma recv_end j : all_ws j ->
  recv None j = Err EEOF (Some EEOF) j /\ recv (Some EEOF) j = Err EEOF (Some EEOF) j.
Proof. intros Hj. unfold recv. rewrite skip_ws_all by assumption. auto. Qed.

(* ---- C11 ---------------------------------------------------------------------------- *)

Theorem rawjson_round_trip : forall rs,
  Forall legal rs ->
  send_all send rs = Some (concat (map enc rs)) /\
  recv_all (concat (map enc rs)) = map IRec rs ++ [IErr EEOF].
Proof.
  intros rs Hrs. split.
  - apply send_all_sent. apply Forall_forall. intros r _. apply send_enc.
  - unfold recv_all.
    apply (round_trip recv enc (fun st => st = None) legal all_ws); auto; [| | |constructor].
    + intros r Hl. rewrite (enc_legal r Hl). destruct Hl as [->|H]; [discriminate|].
      destruct (json_record_head r H) as [c [t [-> _]]]. discriminate.
    + intros st j r rest -> Hj Hl. destruct (recv_enc j r rest Hj Hl) as [j' [E Hj']].
      exists None, j'. auto.
    + intros st j -> Hj. destruct (recv_end j Hj) as [E1 E2]. exists (Some EEOF), j, (Some EEOF), j. auto.
Qed.

(* json_record: an object, a string with escapes, a nested array with numbers and white space *)
Example json_record_examples :
  json_record [123; 125] = true /\ json_record [34; 97; 92; 34; 34] = true /\
  json_record [91; 123; 34; 97; 34; 58; 32; 91; 49; 44; 50; 46; 53; 101; 51; 93; 125; 44; 32; 110; 117; 108; 108; 93] = true /\
  json_record [49; 50] = false /\ json_record [32; 123; 125] = false /\ json_record [123; 125; 32] = false /\
  json_record [123] = false.
Proof. vm_compute. repeat split. Qed.

Example rawjson_round_trip_nonvacuous :
  Forall legal [[123; 125]; []; [34; 97; 92; 34; 34]] /\
  recv_all (concat (map enc [[123; 125]; []; [34; 97; 92; 34; 34]]))
  = [IRec [123; 125]; IRec []; IRec [34; 97; 92; 34; 34]; IErr EEOF].
Proof.
  split; [|vm_compute; reflexivity].
  constructor; [|constructor; [|constructor; [|constructor]]].
  - right. reflexivity.
  - now left.
  - right. reflexivity.
Qed.

(* numbers are not self-delimiting: 1 followed by 2 is the single value 12 *)
Example number_not_self_delimiting : scan ([49] ++ [50]) = Done [].
Proof. reflexivity. Qed.

(* ---- C12 ---------------------------------------------------------------------------- *)

(* one Recv on any stream in any decoder state: no panic, no fuel exhaustion *)
Theorem rawjson_total_no_crash : forall st s,
  match recv st s with Crash _ | OutOfFuel => False | _ => True end.
Proof.
  intros st s. unfold recv. destruct st; [exact I|].
  destruct (skip_ws s) as [|c v] eqn:E; [exact I|].
  pose proof (scan_fuel_ok (c :: v)) as P. destruct (scan (c :: v)); try exact I. exact P.
Qed.

Lemma rawjson_progress : progress_ok recv (fun _ => True).
Proof.
  intros st s _. unfold recv. destruct st as [e|].
  - split; auto. right. split; auto. exists (Some e). auto.
  - pose proof (skip_ws_len s) as Hw. destruct (skip_ws s) as [|c v] eqn:E.
    + split; auto. right. split; auto. exists (Some EEOF). auto.
    + pose proof (scan_fuel_ok (c :: v)) as P. destruct (scan (c :: v)) as [rest| | |]; cbn in P.
      * split; auto. rewrite ?E in Hw. cbn [length] in *. lia.
      * split; auto. right. split; auto. exists (Some EJSONSyntax). auto.
      * split; auto. right. split; auto. exists (Some EUnexpectedEOF). auto.
      * contradiction.
Qed.

(* the whole sequence of Recv calls on any stream: no panic, no fuel exhaustion *)
Theorem rawjson_recv_all_clean : forall s, clean (recv_all s).
Proof.
  intros s. unfold recv_all. apply (recv_all_clean _ (fun _ => True)); auto. apply rawjson_progress.
Qed.

(* an error is sticky: once Recv has failed it keeps returning the same error *)
Theorem rawjson_sticky : forall e s, recv (Some e) s = Err e (Some e) s.
Proof. reflexivity. Qed.

Theorem rawjson_exhausted : forall j, all_ws j ->
  recv_all j = [IErr EEOF].
Proof.
  intros j Hj. unfold recv_all, recv_all_from. cbn [recv_all_loop].
  destruct (recv_end j Hj) as [E1 E2]. rewrite E1. cbn [same_as_prev]. rewrite E2.
  cbn. reflexivity.
Qed.
