(* RawJsonProofs: C11 and C12 for the RawJSON framing (model: RawJson.v over the scanner of
   JsonScan.v).  The scanner facts (fuel sufficiency, prefix extension) are proved for all inputs
   in JsonScanProofs.v. *)
From Coq Require Import List NArith Bool Lia Arith.
From JV Require Import Bytes FrameBase FrameBaseProofs JsonScan JsonScanProofs RawJson.
Import ListNotations.
Local Open Scope N_scope.

Definition all_ws (j : bytes) : Prop := Forall (fun c => is_ws c = true) j.

Lemma skip_ws_app j v : all_ws j -> skip_ws (j ++ v) = skip_ws v.
Proof. induction 1 as [|c j Hc _ IH]; cbn; auto. now rewrite Hc. Qed.

Lemma skip_ws_all j : all_ws j -> skip_ws j = [].
Proof. induction 1 as [|c j Hc _ IH]; cbn; auto. now rewrite Hc. Qed.

(* records the round trip is claimed for: the empty record (sent as null LF, received empty)
   and every JSON object, array or string without outer white space (json_record, a boolean
   checker: the text starts with an opening brace, bracket or quote and Go's scanner grammar
   accepts exactly all of it).  Bare numbers and literals are excluded: two of them sent
   back to back are one token (12) or need a separator the framing does not add. *)
Definition legal (r : bytes) : Prop := r = [] \/ json_record r = true.

Definition enc (r : bytes) : bytes := if is_nil r || is_null r then s_null ++ [10] else r.

Lemma send_enc r : send r = Sent (enc r).
Proof. unfold send, enc. destruct (is_nil r || is_null r); reflexivity. Qed.

Lemma json_record_not_null r : json_record r = true -> is_nil r = false /\ is_null r = false.
Proof.
  intros H. destruct (json_record_head r H) as [c [t [-> [_ Hc]]]]. split; [reflexivity|].
  unfold is_null, s_null. cbn [beq]. destruct Hc as [-> | [-> | ->]]; reflexivity.
Qed.

Lemma enc_legal r : legal r -> enc r = match r with [] => s_null ++ [10] | _ => r end.
Proof.
  intros [->|H]; [reflexivity|]. destruct (json_record_not_null r H) as [H1 H2].
  unfold enc. rewrite H1, H2. destruct r; [discriminate|reflexivity].
Qed.

Lemma scan_null rest : scan (s_null ++ 10 :: rest) = Done (10 :: rest).
Proof. reflexivity. Qed.

Lemma recv_enc j r rest :
  all_ws j -> legal r ->
  exists j', recv None (j ++ enc r ++ rest) = Ok r None (j' ++ rest) /\ all_ws j'.
Proof.
  intros Hj Hl. rewrite (enc_legal r Hl). destruct Hl as [->|H].
  - exists [10]. split; [|repeat constructor].
    unfold recv. rewrite skip_ws_app by assumption.
    change (skip_ws ((s_null ++ [10]) ++ rest)) with (s_null ++ 10 :: rest).
    cbn [s_null app]. change (110 :: 117 :: 108 :: 108 :: 10 :: rest) with (s_null ++ 10 :: rest).
    rewrite scan_null. rewrite span_before_app. reflexivity.
  - destruct (json_record_not_null r H) as [_ Hn].
    destruct (json_record_head r H) as [c [t [E [Hc _]]]]. subst r.
    exists []. split; [|constructor].
    assert (Hs : scan (c :: t ++ rest) = Done rest) by (apply (scan_self_delimiting (c :: t) rest H)).
    unfold recv. rewrite skip_ws_app by assumption. cbn [app skip_ws]. rewrite Hc, Hs.
    change (c :: t ++ rest) with ((c :: t) ++ rest). rewrite span_before_app, Hn. reflexivity.
Qed.

Lemma recv_end j : all_ws j ->
  recv None j = Err EEOF (Some EEOF) j /\ recv (Some EEOF) j = Err EEOF (Some EEOF) j.
Proof. intros Hj. unfold recv. rewrite skip_ws_all by assumption. auto. Qed.

(* ---- C11 ---------------------------------------------------------------------------- *)

Theorem rawjson_round_trip : forall rs,
  Forall legal rs ->
  send_all send rs = Some (concat (map enc rs)) /\
  recv_all (concat (map enc rs)) = map IRec rs ++ [IErr EEOF].
Proof.
  intros rs Hrs. split.
  - apply send_all_sent. apply Forall_forall. intros r _. apply send_enc.
  - unfold recv_all.
    apply (round_trip recv enc (fun st => st = None) legal all_ws); auto; [| | |constructor].
    + intros r Hl. rewrite (enc_legal r Hl). destruct Hl as [->|H]; [discriminate|].
      destruct (json_record_head r H) as [c [t [-> _]]]. discriminate.
    + intros st j r rest -> Hj Hl. destruct (recv_enc j r rest Hj Hl) as [j' [E Hj']].
      exists None, j'. auto.
    + intros st j -> Hj. destruct (recv_end j Hj) as [E1 E2]. exists (Some EEOF), j, (Some EEOF), j. auto.
Qed.

(* json_record: an object, a string with escapes, a nested array with numbers and white space *)
Example json_record_examples :
  json_record [123; 125] = true /\ json_record [34; 97; 92; 34; 34] = true /\
  json_record [91; 123; 34; 97; 34; 58; 32; 91; 49; 44; 50; 46; 53; 101; 51; 93; 125; 44; 32; 110; 117; 108; 108; 93] = true /\
  json_record [49; 50] = false /\ json_record [32; 123; 125] = false /\ json_record [123; 125; 32] = false /\
  json_record [123] = false.
Proof. vm_compute. repeat split. Qed.

Example rawjson_round_trip_nonvacuous :
  Forall legal [[123; 125]; []; [34; 97; 92; 34; 34]] /\
  recv_all (concat (map enc [[123; 125]; []; [34; 97; 92; 34; 34]]))
  = [IRec [123; 125]; IRec []; IRec [34; 97; 92; 34; 34]; IErr EEOF].
Proof.
  split; [|vm_compute; reflexivity].
  constructor; [|constructor; [|constructor; [|constructor]]].
  - right. reflexivity.
  - now left.
  - right. reflexivity.
Qed.

(* numbers are not self-delimiting: 1 followed by 2 is the single value 12 *)
Example number_not_self_delimiting : scan ([49] ++ [50]) = Done [].
Proof. reflexivity. Qed.

(* ---- C12 ---------------------------------------------------------------------------- *)

(* one Recv on any stream in any decoder state: no panic, no fuel exhaustion *)
Theorem rawjson_total_no_crash : forall st s,
  match recv st s with Crash _ | OutOfFuel => False | _ => True end.
Proof.
  intros st s. unfold recv. destruct st; [exact I|].
  destruct (skip_ws s) as [|c v] eqn:E; [exact I|].
  pose proof (scan_fuel_ok (c :: v)) as P. destruct (scan (c :: v)); try exact I. exact P.
Qed.

Lemma rawjson_progress : progress_ok recv (fun _ => True).
Proof.
  intros st s _. unfold recv. destruct st as [e|].
  - split; auto. right. split; auto. exists (Some e). auto.
  - pose proof (skip_ws_len s) as Hw. destruct (skip_ws s) as [|c v] eqn:E.
    + split; auto. right. split; auto. exists (Some EEOF). auto.
    + pose proof (scan_fuel_ok (c :: v)) as P. destruct (scan (c :: v)) as [rest| | |]; cbn in P.
      * split; auto. rewrite ?E in Hw. cbn [length] in *. lia.
      * split; auto. right. split; auto. exists (Some EJSONSyntax). auto.
      * split; auto. right. split; auto. exists (Some EUnexpectedEOF). auto.
      * contradiction.
Qed.

(* the whole sequence of Recv calls on any stream: no panic, no fuel exhaustion *)
Theorem rawjson_recv_all_clean : forall s, clean (recv_all s).
Proof.
  intros s. unfold recv_all. apply (recv_all_clean _ (fun _ => True)); auto. apply rawjson_progress.
Qed.

(* an error is sticky: once Recv has failed it keeps returning the same error *)
Theorem rawjson_sticky : forall e s, recv (Some e) s = Err e (Some e) s.
Proof. reflexivity. Qed.

Theorem rawjson_exhausted : forall j, all_ws j ->
  recv_all j = [IErr EEOF].
Proof.
  intros j Hj. unfold recv_all, recv_all_from. cbn [recv_all_loop].
  destruct (recv_end j Hj) as [E1 E2]. rewrite E1. cbn [same_as_prev]. rewrite E2.
  cbn. reflexivity.
Qed.

(* ---- C12 soundness of the framing layer ------------------------------------------------------ *)

Lemma skip_ws_split s : exists j, s = j ++ skip_ws s /\ all_ws j.
Proof.
  induction s as [|c s [j [E Hj]]]; cbn.
  - exists []. split; [reflexivity|constructor].
  - destruct (is_ws c) eqn:Ec.
    + exists (c :: j). split; [cbn; now f_equal | now constructor].
    + exists []. split; [reflexivity|constructor].
Qed.

(* a record returned by Recv is a contiguous span of the stream: white space, then the bytes of
   exactly one JSON value as Go's scanner delimits it (the record; a null value is returned as the
   empty record), and [rest] is everything after it.  Nothing fabricated, reordered or shortened.
   (The JSON grammar itself is the scanner model of JsonScan.v; it is not restated independently.) *)
Theorem rawjson_sound : forall st s r st' rest,
  recv st s = Ok r st' rest ->
  st = None /\ st' = None /\
  exists j raw, s = j ++ raw ++ rest /\ all_ws j /\
                (exists c t, raw = c :: t /\ is_ws c = false) /\
                scan (raw ++ rest) = Done rest /\
                r = (if is_null raw then [] else raw).
Proof.
  intros st s r st' rest H. unfold recv in H. destruct st as [e|]; [discriminate|].
  destruct (skip_ws_split s) as [j [Es Hj]].
  destruct (skip_ws s) as [|c v] eqn:Ev; [discriminate|].
  destruct (scan (c :: v)) as [rest0| | |] eqn:Esc; try discriminate.
  inversion H; subst r st' rest0. split; auto. split; auto.
  destruct (scan_suffix _ _ Esc) as [raw Eraw].
  assert (Hlen : (length rest + 1 <= length (c :: v))%nat).
  { pose proof (scan_fuel_ok (c :: v)) as P. rewrite Esc in P. exact P. }
  destruct raw as [|c' t].
  { cbn in Eraw. rewrite <- Eraw in Hlen. cbn [length] in Hlen. lia. }
  cbn [app] in Eraw. injection Eraw as Hc Hv. subst c' v.
  exists j, (c :: t). split; [rewrite Es; reflexivity|]. split; [exact Hj|].
  split; [exists c, t; split; [reflexivity | eapply skip_ws_head; exact Ev]|].
  split; [exact Esc|].
  change (c :: t ++ rest) with ((c :: t) ++ rest). rewrite span_before_app. reflexivity.
Qed.

Example rawjson_sound_nonvacuous :
  (* space {} [1] : the first record is the object, the rest starts at the bracket *)
  recv None [32; 123; 125; 91; 49; 93] = Ok [123; 125] None [91; 49; 93].
Proof. reflexivity. Qed.

(* ---- C12 truncation --------------------------------------------------------------------------- *)

(* a proper prefix of a JSON object, array or string is never a complete value: Recv reports an
   error and returns no (shortened) record *)
Lemma recv_cut j r pre suf :
  all_ws j -> json_record r = true -> r = pre ++ suf -> pre <> [] -> suf <> [] ->
  exists e, recv None (j ++ pre) = Err e (Some e) (j ++ pre).
Proof.
  intros Hj Hr E Hp Hs.
  destruct (json_record_head r Hr) as [c [t [Er [Hc Hk]]]].
  destruct pre as [|p0 pre']; [congruence|]. assert (p0 = c) by (rewrite Er in E; now inversion E). subst p0.
  unfold recv. rewrite skip_ws_app by assumption. cbn [skip_ws]. rewrite Hc.
  pose proof (scan_fuel_ok (c :: pre')) as P.
  destruct (scan (c :: pre')) as [rest'| | |] eqn:Esc; [|eauto|eauto|contradiction].
  exfalso.
  assert (Hnn : nonnum (c :: pre')).
  { unfold nonnum. cbn [skip_ws]. rewrite Hc. unfold num_start, is_digit19.
    destruct Hk as [->|[->| ->]]; reflexivity. }
  assert (Hext : scan ((c :: pre') ++ suf) = Done (rest' ++ suf)).
  { unfold scan in *. apply (proj1 (ext_all _) 0 (c :: pre') rest' Esc (or_intror Hnn) suf).
    unfold scan_fuel. rewrite app_length. lia. }
  rewrite <- E in Hext. unfold json_record in Hr. rewrite Er in Hr. rewrite Er in Hext.
  apply andb_true_iff in Hr. destruct Hr as [_ Hr]. rewrite Hext in Hr.
  destruct rest'; [destruct suf; [congruence|discriminate]|discriminate].
Qed.

Theorem rawjson_truncation : forall rs r pre suf,
  Forall legal rs -> json_record r = true -> r = pre ++ suf -> pre <> [] -> suf <> [] ->
  exists e, recv_all (concat (map enc rs) ++ pre) = map IRec rs ++ [IErr e].
Proof.
  intros rs r pre suf Hrs Hr E Hp Hs. unfold recv_all, recv_all_from.
  assert (Hfuel : exists k, S (S (length (concat (map enc rs) ++ pre))) = (length rs + S (S k))%nat).
  { assert (length rs <= length (concat (map enc rs)))%nat.
    { clear - Hrs. induction Hrs as [|x rs Hx _ IH]; cbn; auto. rewrite app_length.
      rewrite (enc_legal x Hx). destruct Hx as [->|Hx]; [cbn; lia|].
      destruct (json_record_head x Hx) as [c [t [-> _]]]. cbn. lia. }
    exists (length (concat (map enc rs)) - length rs + length pre)%nat. rewrite app_length. lia. }
  destruct Hfuel as [k ->].
  destruct (records_then_tail recv enc (fun st => st = None) legal all_ws) with
    (rs := rs) (st := @None errkind) (j := @nil N) (fuel := S (S k)) (prev := @None item) (tail := pre)
    as [st' [j' [prev' [-> [Hj' [Hp' Eq]]]]]]; auto; try congruence; try constructor.
  { intros st j r0 rest -> Hj Hl. destruct (recv_enc j r0 rest Hj Hl) as [j1 [E1 Hj1]]. exists None, j1. auto. }
  cbn [app] in Eq. rewrite Eq.
  destruct (recv_cut j' r pre suf Hj' Hr E Hp Hs) as [e He]. exists e. f_equal.
  cbn [recv_all_loop]. rewrite He. rewrite same_as_prev_noerr by assumption.
  cbn [recv]. cbn [same_as_prev item_eqb]. rewrite errkind_eqb_refl. reflexivity.
Qed.

Example rawjson_truncation_nonvacuous :
  (* {} then the first four bytes of the array of a string and a number *)
  recv_all ([123; 125] ++ [91; 34; 97; 34]) = [IRec [123; 125]; IErr EUnexpectedEOF].
Proof. reflexivity. Qed.
