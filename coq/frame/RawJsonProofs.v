(* RawJsonProofs: the framing logic of RawJSON (model: RawJson.v) on top of the scanner of
   JsonScan.v.  PARTIAL: the two facts about the scanner itself that the full theorems need,
     (a) prefix extension: for every JSON object, array or string r (no outer white space) and
         every continuation,  scan (r ++ rest) = Done rest,
     (b) fuel: scan never returns NoFuel (fuel S (2 * length s) suffices),
   are NOT proved (mutual induction over scan_value / scan_elems / scan_members).  (a) appears
   below as the hypothesis [self_delimiting] on each record, with closed instances as
   non-vacuity examples; both are exercised by the correspondence check on every run. *)
From Coq Require Import List NArith Bool Lia Arith.
From JV Require Import Bytes FrameBase FrameBaseProofs JsonScan RawJson.
Import ListNotations.
Local Open Scope N_scope.

Definition all_ws (j : bytes) : Prop := Forall (fun c => is_ws c = true) j.

Lemma skip_ws_app j v : all_ws j -> skip_ws (j ++ v) = skip_ws v.
Proof. induction 1 as [|c j Hc _ IH]; cbn; auto. now rewrite Hc. Qed.

Lemma skip_ws_all j : all_ws j -> skip_ws j = [].
Proof. induction 1 as [|c j Hc _ IH]; cbn; auto. now rewrite Hc. Qed.

(* the scanner finds the end of r whatever follows *)
Definition self_delimiting (r : bytes) : Prop :=
  exists c t, r = c :: t /\ is_ws c = false /\ forall rest, scan (r ++ rest) = Done rest.

(* records the round trip is claimed for: the empty record (sent as null LF, received empty)
   and self-delimiting JSON texts other than null *)
Definition legal (r : bytes) : Prop := r = [] \/ (self_delimiting r /\ is_null r = false).

Definition enc (r : bytes) : bytes := if is_nil r || is_null r then s_null ++ [10] else r.

Lemma send_enc r : send r = Sent (enc r).
Proof. unfold send, enc. destruct (is_nil r || is_null r); reflexivity. Qed.

Lemma enc_legal r : legal r -> enc r = match r with [] => s_null ++ [10] | _ => r end.
Proof.
  intros [->|[[c [t [-> _]]] Hn]]; [reflexivity|]. unfold enc. rewrite Hn. reflexivity.
Qed.

Lemma scan_null rest : scan (s_null ++ 10 :: rest) = Done (10 :: rest).
Proof. reflexivity. Qed.

Lemma recv_enc j r rest :
  all_ws j -> legal r ->
  exists j', recv None (j ++ enc r ++ rest) = Ok r None (j' ++ rest) /\ all_ws j'.
Proof.
  intros Hj Hl. rewrite (enc_legal r Hl). destruct Hl as [->|[[c [t [-> [Hc Hs]]]] Hn]].
  - exists [10]. split; [|repeat constructor].
    unfold recv. rewrite skip_ws_app by assumption.
    change (skip_ws ((s_null ++ [10]) ++ rest)) with (s_null ++ 10 :: rest).
    cbn [s_null app]. change (110 :: 117 :: 108 :: 108 :: 10 :: rest) with (s_null ++ 10 :: rest).
    rewrite scan_null. rewrite span_before_app. reflexivity.
  - exists []. split; [|constructor].
    unfold recv. rewrite skip_ws_app by assumption. cbn [app skip_ws]. rewrite Hc.
    change (c :: t ++ rest) with ((c :: t) ++ rest).
    rewrite Hs. rewrite span_before_app. rewrite Hn. reflexivity.
Qed.

Lemma recv_end j : all_ws j ->
  recv None j = Err EEOF (Some EEOF) j /\ recv (Some EEOF) j = Err EEOF (Some EEOF) j.
Proof. intros Hj. unfold recv. rewrite skip_ws_all by assumption. auto. Qed.

Theorem rawjson_round_trip_partial : forall rs,
  Forall legal rs ->
  send_all send rs = Some (concat (map enc rs)) /\
  recv_all (concat (map enc rs)) = map IRec rs ++ [IErr EEOF].
Proof.
  intros rs Hrs. split.
  - apply send_all_sent. apply Forall_forall. intros r _. apply send_enc.
  - unfold recv_all.
    apply (round_trip recv enc (fun st => st = None) legal all_ws); auto; [| | |constructor].
    + intros r Hl. rewrite (enc_legal r Hl). destruct Hl as [->|[[c [t [-> _]]] _]]; discriminate.
    + intros st j r rest -> Hj Hl. destruct (recv_enc j r rest Hj Hl) as [j' [E Hj']].
      exists None, j'. auto.
    + intros st j -> Hj. destruct (recv_end j Hj) as [E1 E2]. exists (Some EEOF), j, (Some EEOF), j. auto.
Qed.

(* closed instances of the hypothesis: an object, an array, a string, nested values *)
Example self_delimiting_object : self_delimiting [123; 125].                       (* {} *)
Proof. exists 123, [125]. repeat split. Qed.
Example self_delimiting_string : self_delimiting [34; 97; 92; 34; 34].             (* the string a-backslash-quote *)
Proof. exists 34, [97; 92; 34; 34]. repeat split. Qed.
Example self_delimiting_nested : self_delimiting [91; 123; 34; 97; 34; 58; 91; 49; 44; 50; 93; 125; 93]. (* array of an object with an array member *)
Proof. eexists _, _. repeat split. Qed.

Example rawjson_round_trip_nonvacuous :
  Forall legal [[123; 125]; []; [34; 97; 92; 34; 34]] /\
  recv_all (concat (map enc [[123; 125]; []; [34; 97; 92; 34; 34]]))
  = [IRec [123; 125]; IRec []; IRec [34; 97; 92; 34; 34]; IErr EEOF].
Proof.
  split; [|vm_compute; reflexivity].
  constructor; [|constructor; [|constructor; [|constructor]]].
  - right. split; [apply self_delimiting_object | reflexivity].
  - now left.
  - right. split; [apply self_delimiting_string | reflexivity].
Qed.

(* numbers are not self-delimiting: 1 followed by 2 is the single value 12 (so the round trip
   is not claimed for them, and the framing is documented as unsuitable for bare scalars) *)
Example number_not_self_delimiting : scan ([49] ++ [50]) = Done [].
Proof. reflexivity. Qed.

(* C12, partial: the model of Recv has no panic outcome; what is missing is (b) above *)
Theorem rawjson_never_panics_partial : forall st s,
  match recv st s with Crash _ => False | _ => True end.
Proof.
  intros st s. unfold recv. destruct st; [exact I|].
  destruct (skip_ws s); [exact I|]. destruct (scan _); exact I.
Qed.

Theorem rawjson_exhausted : forall j, all_ws j ->
  recv_all j = [IErr EEOF].
Proof.
  intros j Hj. unfold recv_all, recv_all_from. cbn [recv_all_loop].
  destruct (recv_end j Hj) as [E1 E2]. rewrite E1. cbn [same_as_prev]. rewrite E2.
  cbn. reflexivity.
Qed.
