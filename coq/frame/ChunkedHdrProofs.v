(* ChunkedHdrProofs: the header framings' Recv does not depend on how the transport fragments the
   byte stream (models: ChunkedHdr.v over Chunked.v; stream model Hdr.v):

     forget (chdr_recv_k c eager k req p want (st, r) _) = Hdr.recv c p want st (stream r)

   for every reachable reader state r, both EOF behaviours of the transport, every buffer size
   k > 0, every request schedule of the CopyN path, every buffer state st and both defect
   switches (crashes included: both sides crash on the same inputs). *)
From Coq Require Import List NArith ZArith Bool Lia Arith.
From JV Require Import Bytes FrameBase FrameBaseProofs Hdr HdrProofs Chunked ChunkedProofs ChunkedHdr.
Import ListNotations.
Local Open Scope N_scope.

(* ---- ReadString ------------------------------------------------------------------------- *)

Lemma read_string_skip d : forall a t,
  ~ In d a ->
  read_string d (a ++ t) = let '(a', r, f) := read_string d t in (a ++ a', r, f).
Proof.
  induction a as [|c a IH]; intros t Hn.
  - cbn [app]. destruct (read_string d t) as [[a' r] f]. reflexivity.
  - cbn [app read_string]. destruct (N.eqb_spec c d) as [->|Hcd]; [exfalso; apply Hn; now left|].
    rewrite IH by (intros Hx; apply Hn; now right).
    destruct (read_string d t) as [[a' r] f]. reflexivity.
Qed.

Lemma cread_string_spec eager d k : 0 < k -> forall fuel r,
  wf k r -> (length (stream r) < fuel)%nat ->
  exists a r' fd,
    cread_string fuel eager d k r = Some (a, r', fd) /\
    read_string d (stream r) = (a, stream r', fd) /\ wf k r'.
Proof.
  intros Hk. induction fuel as [|f IH]; intros r Hwf Hf; [lia|].
  cbn [cread_string].
  destruct (cread_slice_spec eager d k Hk (slice_fuel r) r Hwf (measure_slice_fuel r))
    as [a [r1 [st [E [Hs [Hw1 Hst]]]]]].
  rewrite E. destruct st.
  - destruct Hst as [p [-> Hp]]. exists (p ++ [d]), r1, true. split; [reflexivity|]. split; [|exact Hw1].
    rewrite Hs, <- app_assoc. cbn [app]. now apply read_string_found.
  - destruct Hst as [Hna Hne].
    destruct (IH r1 Hw1) as [a' [r2 [fd [E' [Hrs Hw2]]]]].
    { rewrite Hs, app_length in Hf. destruct a; [congruence|]. cbn [length] in Hf. lia. }
    rewrite E'. exists (a ++ a'), r2, fd. split; [reflexivity|]. split; [|exact Hw2].
    rewrite Hs, read_string_skip by assumption. now rewrite Hrs.
  - destruct Hst as [Hna He]. exists a, r1, false. split; [reflexivity|]. split; [|exact Hw1].
    rewrite Hs, He, app_nil_r. now apply read_string_nodelim.
Qed.

(* ---- the header loop --------------------------------------------------------------------- *)

Definition hview (x : chdr_outcome) : hdr_outcome :=
  match x with
  | CHDone ct cl r => HDone ct cl (stream r)
  | CHErr e r => HErr e (stream r)
  | CHOutOfFuel => HOutOfFuel
  end.

Lemma chdr_loop_stream eager k : 0 < k -> forall f ct cl r,
  wf k r ->
  hview (chdr_loop f eager k ct cl r) = hdr_loop f ct cl (stream r) /\
  match chdr_loop f eager k ct cl r with
  | CHDone _ _ r' | CHErr _ r' => wf k r'
  | CHOutOfFuel => True
  end.
Proof.
  intros Hk. induction f as [|f IH]; intros ct cl r Hwf; [split; [reflexivity | exact I]|].
  rewrite hdr_loop_S. cbn [chdr_loop].
  destruct (cread_string_spec eager 10 k Hk (S (length (stream r))) r Hwf (Nat.lt_succ_diag_r _))
    as [raw [r1 [fd [E [Hrs Hw1]]]]].
  rewrite E, Hrs.
  destruct (negb fd && is_nil raw); [split; [reflexivity | exact Hw1]|].
  destruct (is_nil (trim_right_crlf raw)); [split; [reflexivity | exact Hw1]|].
  destruct (split_colon (trim_right_crlf raw)) as [[name value]|]; [|split; [reflexivity | exact Hw1]].
  destruct (beq (ascii_lower name) s_content_type); [now apply IH|].
  destruct (beq (ascii_lower name) s_content_length); now apply IH.
Qed.

(* ---- Read(p) ------------------------------------------------------------------------------ *)

Lemma firstn_nonempty {A} m (l : list A) : (0 < m)%nat -> l <> [] -> firstn m l <> [].
Proof. intros Hm Hl. destruct m; [lia|]. destruct l; [congruence|]. discriminate. Qed.

Lemma skipn_length_le {A} m (l : list A) : (length (skipn m l) <= length l)%nat.
Proof. rewrite skipn_length. lia. Qed.

Lemma cread_spec eager k m r a r' eof :
  0 < k -> wf k r -> (0 < m)%nat -> cread eager k m r = (a, r', eof) ->
  stream r = a ++ stream r' /\ wf k r' /\ (length a <= m)%nat /\
  (eof = true -> stream r' = []) /\ (eof = false -> a <> []).
Proof.
  intros Hk [Hl [Hne Hp]] Hm H. unfold cread in H.
  destruct (rbuf r) as [|x b] eqn:Eb.
  - destruct (rerr r) eqn:Ee.
    + inversion H; subst a r' eof. unfold stream. rewrite Eb, (Hp eq_refl). cbn.
      split; [reflexivity|]. split; [apply wf_drained; constructor|]. split; [lia|]. split; [reflexivity | discriminate].
    + destruct (N.to_nat k <=? m)%nat.
      * destruct (src_read eager m (rsrc r)) as [[a0 src'] e] eqn:Es.
        destruct (src_read_spec _ _ _ _ _ _ Hm Hne Es) as [H1 [H2 [H3 [H4 H5]]]].
        inversion H; subst a0 r' e. unfold stream. rewrite Eb. cbn [rbuf rsrc app].
        split; [now rewrite H1|]. split; [now apply wf_drained|]. split; [exact H2|]. split.
        -- intros He. rewrite (H4 He). reflexivity.
        -- intros He. destruct H5 as [[_ [_ [_ H5]]]|[H5 _]]; [congruence | exact H5].
      * assert (Hkn : (0 < N.to_nat k)%nat) by lia.
        destruct (src_read eager (N.to_nat k) (rsrc r)) as [[a0 src'] e] eqn:Es.
        destruct (src_read_spec _ _ _ _ _ _ Hkn Hne Es) as [H1 [H2 [H3 [H4 H5]]]].
        destruct a0 as [|y a0'] eqn:Ea.
        -- inversion H; subst a r' eof. unfold stream. rewrite Eb. cbn [rbuf rsrc app] in *.
           split; [now rewrite <- H1|]. split; [now apply wf_drained|]. split; [cbn [length]; lia|]. split.
           ++ intros He. rewrite (H4 He). reflexivity.
           ++ intros He. destruct H5 as [[_ [_ [_ H5]]]|[H5 _]]; congruence.
        -- rewrite <- Ea in *. inversion H; subst a r' eof. unfold stream. rewrite Eb. cbn [rbuf rsrc app].
           split; [rewrite app_assoc, firstn_skipn; now rewrite H1|]. split.
           ++ split; [cbn [rbuf]; pose proof (skipn_length_le m a0); lia|]. split; [exact H3 | exact H4].
           ++ split; [apply firstn_le_length|]. split; [discriminate|]. intros _.
              apply firstn_nonempty; [exact Hm | subst a0; discriminate].
  - inversion H; subst a r' eof. unfold stream. cbn [rbuf rsrc]. rewrite Eb.
    split; [rewrite app_assoc, firstn_skipn; reflexivity|]. split.
    + split; [cbn [rbuf]; pose proof (skipn_length_le m (x :: b)); lia|].
      split; [exact Hne | exact Hp].
    + split; [apply firstn_le_length|]. split; [discriminate|]. intros _.
      apply firstn_nonempty; [exact Hm | discriminate].
Qed.

(* ---- io.ReadFull / io.CopyN ----------------------------------------------------------------- *)

Lemma take_n_zero s : take_n 0 s = ([], s, true).
Proof. destruct s; reflexivity. Qed.

Lemma take_n_prefix : forall a n t,
  N.of_nat (length a) <= n ->
  take_n n (a ++ t) = let '(d, r, ok) := take_n (n - N.of_nat (length a)) t in (a ++ d, r, ok).
Proof.
  induction a as [|c a IH]; intros n t Hl.
  - cbn [app length]. replace (n - N.of_nat 0) with n by lia.
    destruct (take_n n t) as [[d r] ok]. reflexivity.
  - cbn [app take_n]. destruct (N.eqb_spec n 0) as [->|Hn]; [cbn [length] in Hl; lia|].
    rewrite IH by (cbn [length] in Hl; lia).
    replace (N.pred n - N.of_nat (length a)) with (n - N.of_nat (length (c :: a))) by (cbn [length]; lia).
    destruct (take_n (n - N.of_nat (length (c :: a))) t) as [[d r] ok]. reflexivity.
Qed.

Lemma cread_n_spec eager k req : 0 < k -> forall fuel want got r,
  wf k r -> (length (stream r) + 1 < fuel)%nat ->
  exists data r' ok,
    cread_n fuel eager k req want got r = Some (got ++ data, r', ok) /\
    take_n (N.of_nat want) (stream r) = (data, stream r', ok) /\ wf k r'.
Proof.
  intros Hk. induction fuel as [|f IH]; intros want got r Hwf Hf; [lia|].
  cbn [cread_n]. destruct want as [|w].
  - exists [], r, true. rewrite app_nil_r. split; [reflexivity|]. split; [apply take_n_zero | exact Hwf].
  - set (m := Nat.max 1 (Nat.min (S w) (req (length got) (S w)))).
    assert (Hm : (0 < m)%nat) by (unfold m; lia).
    assert (Hmw : (m <= S w)%nat) by (unfold m; lia).
    destruct (cread eager k m r) as [[a r1] eof] eqn:Ec.
    destruct (cread_spec eager k m r a r1 eof Hk Hwf Hm Ec) as [Hs [Hw1 [Hla [He Hne]]]].
    destruct eof.
    + exists a, r1, (S w - length a =? 0)%nat. split; [reflexivity|]. split; [|exact Hw1].
      rewrite Hs, (He eq_refl), app_nil_r.
      destruct (Nat.eqb_spec (S w - length a) 0) as [Hz|Hz].
      * assert (Hlen : length a = S w) by lia. rewrite <- Hlen.
        rewrite <- (app_nil_r a) at 2. apply take_n_app.
      * apply take_n_short. lia.
    + specialize (Hne eq_refl).
      destruct (IH (S w - length a)%nat (got ++ a) r1 Hw1) as [data [r2 [ok [E' [Ht Hw2]]]]].
      { rewrite Hs, app_length in Hf. destruct a; [congruence|]. cbn [length] in Hf. lia. }
      exists (a ++ data), r2, ok. rewrite app_assoc. split; [exact E'|]. split; [|exact Hw2].
      rewrite Hs, take_n_prefix by lia.
      replace (N.of_nat (S w) - N.of_nat (length a)) with (N.of_nat (S w - length a)) by lia.
      now rewrite Ht.
Qed.

Lemma read_fuel_ok r : (length (stream r) + 1 < read_fuel r)%nat.
Proof. unfold read_fuel. lia. Qed.

(* ---- the body -------------------------------------------------------------------------------- *)

Definition good {St} (k : N) (x : result (St * rdr)) : Prop :=
  match x with
  | Ok _ st rest | OkWithErr _ _ st rest | Err _ st rest => wf k (snd st) /\ stream (snd st) = rest
  | _ => True
  end.

Lemma cfinish_read_stream k data r' ok cerr st :
  wf k r' ->
  forget (cfinish_read (Some (data, r', ok)) cerr st) =
    match (data, stream r', ok) with
    | (data, rest, true) => finish data cerr st rest
    | ([], rest, false) => Err EEOF st rest
    | (_, rest, false) => Err EUnexpectedEOF st rest
    end /\ good k (cfinish_read (Some (data, r', ok)) cerr st).
Proof.
  intros Hw. unfold cfinish_read, finish, good.
  destruct ok; destruct data; destruct cerr; cbn [forget fst snd]; split; auto.
Qed.

Lemma crecv_body_stream c eager k req want ct cl st r :
  0 < k -> wf k r ->
  forget (crecv_body c eager k req want ct cl st r) = recv_body c want ct cl st (stream r) /\
  good k (crecv_body c eager k req want ct cl st r).
Proof.
  intros Hk Hwf. unfold crecv_body, recv_body.
  destruct cl as [|c0 cl']; [cbn [forget fst snd good]; auto|].
  destruct (atoi (c0 :: cl')) as [z|]; [|cbn [forget fst snd good]; auto].
  destruct (z <? 0)%Z; [cbn [forget fst snd good]; auto|].
  destruct (fix_F5 c && (max_prealloc <? Z.to_N z) && (st <? Z.to_N z)).
  - destruct (cread_n_spec eager k req Hk (read_fuel r) (N.to_nat (Z.to_N z)) [] r Hwf (read_fuel_ok r))
      as [data [r' [ok [E [Ht Hw']]]]].
    cbn [app] in E. rewrite N2Nat.id in Ht. rewrite Ht, E.
    exact (cfinish_read_stream k data r' ok _ st Hw').
  - destruct (if (st <? Z.to_N z) || (shrink_above <? st) && (Z.to_N z <? st / 4)
              then make_slice (wrap64 (z * 2)) else Some st) as [st'|]; [|cbn [forget good]; auto].
    destruct (st' <? Z.to_N z); [cbn [forget good]; auto|].
    destruct (cread_n_spec eager k req_full Hk (read_fuel r) (N.to_nat (Z.to_N z)) [] r Hwf (read_fuel_ok r))
      as [data [r' [ok [E [Ht Hw']]]]].
    cbn [app] in E. rewrite N2Nat.id in Ht. rewrite Ht, E.
    exact (cfinish_read_stream k data r' ok _ st' Hw').
Qed.

(* ---- one Recv ---------------------------------------------------------------------------------- *)

Lemma crecv_strict_stream c eager k req want st r :
  0 < k -> wf k r ->
  forget (crecv_strict c eager k req want st r) = recv_strict c want st (stream r) /\
  good k (crecv_strict c eager k req want st r).
Proof.
  intros Hk Hwf. unfold crecv_strict. rewrite recv_strict_unfold.
  destruct (chdr_loop_stream eager k Hk (S (length (stream r))) [] [] r Hwf) as [H1 H2].
  rewrite <- H1.
  destruct (chdr_loop (S (length (stream r))) eager k [] [] r) as [ct cl r'|e r'|]; cbn [hview].
  - now apply crecv_body_stream.
  - cbn [forget fst snd good]. auto.
  - cbn [forget good]. auto.
Qed.

Theorem chdr_recv_k_stream : forall c eager k req p want st r x,
  0 < k -> wf k r ->
  forget (chdr_recv_k c eager k req p want (st, r) x) = Hdr.recv c p want st (stream r) /\
  good k (chdr_recv_k c eager k req p want (st, r) x).
Proof.
  intros c eager k req p want st r x Hk Hwf. unfold chdr_recv_k, Hdr.recv. cbn [fst snd].
  destruct (crecv_strict_stream c eager k req want st r Hk Hwf) as [H1 H2]. rewrite <- H1.
  destruct p; [auto|].
  destruct (crecv_strict c eager k req want st r) as [a s1 rest|a e s1 rest|e s1 rest|cr|];
    cbn [forget]; auto.
  destruct e; cbn [forget]; auto. destruct got; cbn [forget]; auto.
Qed.

(* the real window: one call from any reachable reader state *)
Theorem hdr_chunked_recv_state : forall c eager req p want st r x,
  wf bufio_size r ->
  forget (chdr_recv c eager req p want (st, r) x) = Hdr.recv c p want st (stream r) /\
  match chdr_recv c eager req p want (st, r) x with
  | Ok _ st' rest | OkWithErr _ _ st' rest | Err _ st' rest => wf bufio_size (snd st') /\ stream (snd st') = rest
  | _ => True
  end.
Proof. intros c eager req p want st r x Hwf. apply chdr_recv_k_stream; auto using SplitProofs.bufio_size_pos. Qed.

(* all Recv calls: the observation does not depend on the fragmentation *)
Theorem hdr_chunked_recv_all : forall c eager req p want st chunks,
  Forall nonempty chunks ->
  chdr_recv_all c eager req p want st chunks = Hdr.recv_all c p want st (concat chunks).
Proof.
  intros c eager req p want st chunks H. unfold chdr_recv_all, Hdr.recv_all, recv_all_from.
  rewrite (recv_all_loop_chunked (chdr_recv c eager req p want) (Hdr.recv c p want) bufio_size).
  - reflexivity.
  - intros st0 r x Hwf. now apply hdr_chunked_recv_state.
  - now apply wf_rinit.
Qed.

(* C11 for the header framings in full: whatever way the encoded stream is cut into reads *)
Theorem hdr_chunked_round_trip : forall eager req p mt rs st chunks,
  usable_mime mt = true -> st <= buf_bound ->
  Forall (fun r => (Z.of_nat (length r) <= max_int)%Z) rs ->
  Forall nonempty chunks -> concat chunks = concat (map (enc mt) rs) ->
  chdr_recv_all cfg_fixed eager req p mt st chunks = map IRec rs ++ [IErr EEOF].
Proof.
  intros eager req p mt rs st chunks Hu Hst Hrs Hc E. rewrite hdr_chunked_recv_all by assumption.
  rewrite E. exact (proj2 (hdr_round_trip p mt rs st Hu Hst Hrs)).
Qed.

(* non-vacuity: two records cut in the middle of a header name, inside CR LF, inside the payload;
   1-byte chunks with data+EOF; a 5-byte window (ReadString over several full buffers, direct
   reads); a request schedule of one byte at a time *)
Definition two_records : bytes := enc [] [97; 98; 99] ++ enc [] [].

Example hdr_chunked_nonvacuous :
  chdr_recv_all cfg_fixed false req_full Strict [] 0
    [firstn 5 two_records; firstn 12 (skipn 5 two_records); firstn 4 (skipn 17 two_records); skipn 21 two_records]
  = [IRec [97; 98; 99]; IRec []; IErr EEOF] /\
  chdr_recv_all cfg_fixed true (fun _ _ => 1%nat) Strict [] 0 (map (fun c => [c]) two_records)
  = [IRec [97; 98; 99]; IRec []; IErr EEOF] /\
  forget (chdr_recv_k cfg_fixed true 5 (fun _ _ => 1%nat) Optional [] (0, rinit [firstn 7 two_records; skipn 7 two_records]) [])
  = Ok [97; 98; 99] 6 (enc [] []).
Proof. vm_compute. auto. Qed.
