(* SplitProofs: C11 and C12 for the Split/Line framing (model: Split.v). *)
From Coq Require Import List NArith Bool Lia Arith.
From JV Require Import Bytes FrameBase FrameBaseProofs Split FrameSpec.
Import ListNotations.
Local Open Scope N_scope.

Lemma buf_bytes_cons x acc : buf_bytes (x :: acc) = buf_bytes acc ++ x.
Proof. unfold buf_bytes. cbn [rev]. rewrite concat_app. cbn. now rewrite app_nil_r. Qed.

Lemma buf_bytes_nil : buf_bytes [] = [].
Proof. reflexivity. Qed.

Lemma split_at_window (k : N) (r : bytes) :
  k <= N.of_nat (length r) ->
  exists p r', r = p ++ r' /\ N.of_nat (length p) = k.
Proof.
  intros Hk. exists (firstn (N.to_nat k) r), (skipn (N.to_nat k) r).
  split; [now rewrite firstn_skipn|]. rewrite firstn_length. lia.
Qed.

Lemma first_occurrence (b : N) (s : bytes) :
  In b s -> exists r rest, s = r ++ b :: rest /\ ~ In b r.
Proof.
  induction s as [|c s IH]; intros Hin; [destruct Hin|].
  destruct (N.eq_dec c b) as [->|Hcb].
  - exists [], s. split; [reflexivity|]. intros [].
  - destruct Hin as [Hx|Hx]; [congruence|].
    destruct (IH Hx) as [r [rest [-> Hn]]]. exists (c :: r), rest. split; [reflexivity|].
    intros [Hy|Hy]; [congruence|auto].
Qed.

Section Window.
  Variable c : cfg.
  Variable b k : N.
  Hypothesis Hk : 0 < k.

  (* a delimited record: every iteration but the last appends a full window *)
  Lemma recv_loop_found : forall fuel r acc rest,
    ~ In b r -> (length r < fuel)%nat ->
    recv_loop c fuel b k acc (r ++ b :: rest) = Ok (buf_bytes acc ++ r) tt rest.
  Proof.
    induction fuel as [|f IH]; intros r acc rest Hn Hf; [lia|].
    cbn [recv_loop].
    destruct (N.ltb_spec (N.of_nat (length r)) k) as [Hlt|Hge].
    - rewrite read_slice_found by assumption.
      rewrite buf_bytes_cons, app_assoc. now rewrite removelast_last.
    - destruct (split_at_window k r Hge) as [p [r' [-> Hp]]].
      rewrite <- app_assoc. rewrite read_slice_full; auto.
      + rewrite IH.
        * now rewrite buf_bytes_cons, app_assoc.
        * intros Hx. apply Hn. apply in_or_app. now right.
        * rewrite app_length in Hf. lia.
      + intros Hx. apply Hn. apply in_or_app. now left.
  Qed.

  Definition eof_outcome (line : bytes) : result unit :=
    match line with
    | [] => Err EEOF tt []
    | _ => OkWithErr (if fix_F6 c then line else removelast line) EEOF tt []
    end.

  (* no delimiter before the end of the stream *)
  Lemma recv_loop_eof : forall fuel s acc,
    ~ In b s -> (length s < fuel)%nat ->
    recv_loop c fuel b k acc s = eof_outcome (buf_bytes acc ++ s).
  Proof.
    induction fuel as [|f IH]; intros s acc Hn Hf; [lia|].
    cbn [recv_loop].
    destruct (N.ltb_spec (N.of_nat (length s)) k) as [Hlt|Hge].
    - rewrite read_slice_eof by assumption. rewrite buf_bytes_cons. unfold eof_outcome.
      destruct (fix_F6 c); destruct (buf_bytes acc ++ s); reflexivity.
    - destruct (split_at_window k s Hge) as [p [s' [-> Hp]]].
      rewrite read_slice_full; auto.
      + rewrite IH.
        * now rewrite buf_bytes_cons, app_assoc.
        * intros Hx. apply Hn. apply in_or_app. now right.
        * rewrite app_length in Hf. lia.
      + intros Hx. apply Hn. apply in_or_app. now left.
  Qed.

  Lemma recv_k_found r rest : ~ In b r -> recv_k c b k tt (r ++ b :: rest) = Ok r tt rest.
  Proof.
    intros Hn. unfold recv_k. rewrite recv_loop_found; auto.
    rewrite app_length. cbn. lia.
  Qed.

  Lemma recv_k_eof s : ~ In b s -> recv_k c b k tt s = eof_outcome s.
  Proof. intros Hn. unfold recv_k. rewrite recv_loop_eof; auto. Qed.

  (* complete description of one Recv *)
  Lemma recv_k_cases s :
    (exists r rest, s = r ++ b :: rest /\ ~ In b r /\ recv_k c b k tt s = Ok r tt rest) \/
    (~ In b s /\ recv_k c b k tt s = eof_outcome s).
  Proof.
    destruct (in_dec N.eq_dec b s) as [Hin|Hn].
    - left. destruct (first_occurrence b s Hin) as [r [rest [-> Hr]]].
      exists r, rest. repeat split; auto. now apply recv_k_found.
    - right. split; auto. now apply recv_k_eof.
  Qed.
End Window.

Lemma bufio_size_pos : 0 < bufio_size.
Proof. reflexivity. Qed.

Lemma recv_cases c b s :
  (exists r rest, s = r ++ b :: rest /\ ~ In b r /\ recv c b tt s = Ok r tt rest) \/
  (~ In b s /\ recv c b tt s = eof_outcome c s).
Proof. apply recv_k_cases. exact bufio_size_pos. Qed.

(* ---- C11 ------------------------------------------------------------------ *)

Lemma send_refuses b r : In b r -> send b r = Refused.
Proof. intros H. unfold send. apply mem_spec in H. now rewrite H. Qed.

Lemma send_accepts b r : ~ In b r -> send b r = Sent (r ++ [b]).
Proof. intros H. unfold send. apply mem_false in H. now rewrite H. Qed.

Lemma send_refuses_iff b r : send b r = Refused <-> In b r.
Proof.
  split; [|apply send_refuses]. unfold send. destruct (mem b r) eqn:E; [|discriminate].
  intros _. now apply mem_spec.
Qed.

Theorem split_round_trip : forall c b rs,
  Forall (fun r => ~ In b r) rs ->
  send_all (send b) rs = Some (SplitSpec.encode b rs) /\
  recv_all c b (SplitSpec.encode b rs) = map IRec rs ++ [IErr EEOF].
Proof.
  intros c b rs Hrs. split.
  - apply send_all_sent. eapply Forall_impl; [|exact Hrs]. intros r Hr. now apply send_accepts.
  - unfold recv_all, SplitSpec.encode.
    apply (round_trip (recv c b) (fun r => r ++ [b]) (fun _ => True) (fun r => ~ In b r) (fun j => j = [])); auto.
    + intros r _ H. destruct r; discriminate.
    + intros [] j r rest _ -> Hr. exists tt, []. cbn [app]. rewrite <- app_assoc. cbn [app].
      unfold recv. rewrite recv_k_found; auto. exact bufio_size_pos.
    + intros [] j _ ->. exists tt, [], tt, []. unfold recv.
      rewrite recv_k_eof by (auto using bufio_size_pos). cbn. auto.
Qed.

(* ---- C12 ------------------------------------------------------------------ *)

Theorem split_total_no_crash : forall b s,
  match recv cfg_fixed b tt s with
  | Ok _ _ _ | OkWithErr _ _ _ _ | Err _ _ _ => True
  | Crash _ | OutOfFuel => False
  end.
Proof.
  intros b s. destruct (recv_cases cfg_fixed b s) as [[r [rest [_ [_ ->]]]]|[_ ->]]; [exact I|].
  unfold eof_outcome. destruct s; exact I.
Qed.

Theorem split_sound : forall b s r st rest,
  recv cfg_fixed b tt s = Ok r st rest -> SplitSpec.frame b s r rest.
Proof.
  intros b s r st rest H.
  destruct (recv_cases cfg_fixed b s) as [[r' [rest' [-> [Hn E]]]]|[_ E]]; rewrite E in H.
  - inversion H; subst. split; auto.
  - unfold eof_outcome in H. destruct s; discriminate.
Qed.

(* a record returned together with an error is the whole unterminated tail of the stream *)
Theorem split_partial_whole : forall b s r e st rest,
  recv cfg_fixed b tt s = OkWithErr r e st rest -> r = s /\ e = EEOF /\ rest = [] /\ ~ In b s.
Proof.
  intros b s r e st rest H.
  destruct (recv_cases cfg_fixed b s) as [[r' [rest' [-> [Hn E]]]]|[Hn E]]; rewrite E in H.
  - discriminate.
  - unfold eof_outcome in H. destruct s; [discriminate|]. cbn in H. inversion H; subst. auto.
Qed.

Theorem split_exhausted : forall c b, recv c b tt [] = Err EEOF tt [].
Proof. intros c b. unfold recv. rewrite recv_k_eof; auto using bufio_size_pos. Qed.

Theorem split_exhausted_all : forall c b, recv_all c b [] = [IErr EEOF].
Proof.
  intros c b. unfold recv_all, recv_all_from. cbn [length recv_all_loop]. rewrite split_exhausted.
  cbn [same_as_prev]. rewrite split_exhausted. cbn. reflexivity.
Qed.

Lemma split_progress c b : progress_ok (recv c b) (fun _ => True).
Proof.
  intros [] s _. destruct (recv_cases c b s) as [[r [rest [-> [_ ->]]]]|[_ ->]].
  - split; auto. rewrite app_length. cbn. lia.
  - unfold eof_outcome. destruct s as [|x s].
    + split; auto. right. split; auto. exists tt. rewrite split_exhausted. auto.
    + split; auto. left. cbn. lia.
Qed.

Theorem split_recv_all_clean : forall c b s, clean (recv_all c b s).
Proof. intros c b s. apply (recv_all_clean _ (fun _ => True)); auto. apply split_progress. Qed.

(* truncation: valid records followed by a record cut before its delimiter *)
Theorem split_truncation : forall b rs p,
  Forall (fun r => ~ In b r) rs -> ~ In b p -> p <> [] ->
  recv_all cfg_fixed b (SplitSpec.encode b rs ++ p) = map IRec rs ++ [IRecErr p EEOF; IErr EEOF].
Proof.
  intros b rs p Hrs Hp Hne. unfold recv_all, recv_all_from.
  assert (G : forall rs fuel prev, Forall (fun r => ~ In b r) rs -> (length rs + 3 <= fuel)%nat ->
              recv_all_loop (recv cfg_fixed b) fuel prev tt (SplitSpec.encode b rs ++ p)
              = map IRec rs ++ [IRecErr p EEOF; IErr EEOF]).
  { clear rs Hrs. induction rs as [|r rs IH]; intros fuel prev Hrs Hf.
    - destruct fuel as [|[|[|f]]]; try (cbn in Hf; lia).
      cbn [SplitSpec.encode map concat app recv_all_loop]. unfold recv at 1.
      rewrite recv_k_eof by (auto using bufio_size_pos).
      unfold eof_outcome. destruct p as [|x p]; [congruence|]. cbn [fix_F6 cfg_fixed item_of_recerr same_as_prev].
      reflexivity.
    - inversion Hrs; subst. destruct fuel as [|f]; [cbn in Hf; lia|].
      unfold SplitSpec.encode. cbn [map concat recv_all_loop]. rewrite <- !app_assoc. cbn [app].
      unfold recv at 1. rewrite recv_k_found by (auto using bufio_size_pos).
      cbn [map app]. f_equal. apply IH; auto. cbn in Hf. lia. }
  apply G; auto.
  unfold SplitSpec.encode. rewrite app_length.
  assert (length rs <= length (concat (map (fun r => r ++ [b]) rs)))%nat.
  { clear. induction rs as [|r rs IH]; cbn; auto. rewrite !app_length. cbn. lia. }
  destruct p; [congruence|]. cbn [length]. lia.
Qed.

(* F6: before the fix the partial final record lost its last byte *)
Definition cfg_without_F6 : cfg := {| fix_F5 := true; fix_F6 := false |}.

Lemma split_refuted_without_F6 :
  (* stream  abc LF def  *)
  recv_all cfg_without_F6 10 [97; 98; 99; 10; 100; 101; 102]
  = [IRec [97; 98; 99]; IRecErr [100; 101] EEOF; IErr EEOF].
Proof. vm_compute. reflexivity. Qed.

(* non-vacuity *)
Example split_round_trip_nonvacuous :
  Forall (fun r => ~ In 10 r) [[97]; []; [98; 99]] /\
  recv_all cfg_fixed 10 (SplitSpec.encode 10 [[97]; []; [98; 99]]) = [IRec [97]; IRec []; IRec [98; 99]; IErr EEOF].
Proof.
  split; [|vm_compute; reflexivity].
  repeat constructor; cbn; intuition discriminate.
Qed.

Example split_truncation_nonvacuous :
  recv_all cfg_fixed 10 (SplitSpec.encode 10 [[97]] ++ [100; 101]) = [IRec [97]; IRecErr [100; 101] EEOF; IErr EEOF].
Proof. vm_compute. reflexivity. Qed.
