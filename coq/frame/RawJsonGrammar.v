(* RawJsonGrammar: the scanner of the RawJSON framing (JsonScan.v, the model of what
   json.Decoder delimits) against the INDEPENDENT JSON grammar of json/Json.v (the fuelled
   recursive-descent parser pval / parse_doc = json.Valid, written separately for the wire
   properties):

     scan_value f d s = Done r   ->   the parser reads a value off skip_ws s and leaves r
     RawJson.recv None s = Ok r None rest -> r <> [] -> Json.valid r = true

   Part 1: leaf scanners (strings, numbers, literals) against pstr / pnum / strip_prefix.
   Part 2: scan_value / scan_elems / scan_members against pval / pelems / pmems.
   Part 3: tail replacement: what the scanner accepted in front of r it accepts in front of the
           empty tail (and of any tail with the same first byte).
   Part 4: the theorem. *)
From Coq Require Import List NArith Bool Lia Arith.
From JV Require Import Bytes FrameBase FrameBaseProofs JsonScan JsonScanProofs RawJson RawJsonProofs.
From JV Require Json JsonProofs JsonPrint.
Import ListNotations.
Local Open Scope N_scope.

(* ------------------------------------------------------------------------------------------- *)
(* Part 1: leaves *)

(* the two developments define the same lexical classes *)
Lemma is_ws_same c : Json.is_ws c = is_ws c.
Proof. reflexivity. Qed.
Lemma is_digit_same c : Json.is_digit c = is_digit c.
Proof. reflexivity. Qed.
Lemma is_hex_same c : Json.is_hex c = is_hex c.
Proof. reflexivity. Qed.

Lemma split_ws_skip : forall s, exists w, Json.split_ws s = (w, skip_ws s).
Proof.
  induction s as [|c s [w IH]]; cbn [Json.split_ws skip_ws].
  - exists []. reflexivity.
  - rewrite is_ws_same. destruct (is_ws c).
    + rewrite IH. exists (c :: w). reflexivity.
    + exists []. reflexivity.
Qed.

Lemma skip_ws_nows c s : is_ws c = false -> skip_ws (c :: s) = c :: s.
Proof. intros H. cbn [skip_ws]. now rewrite H. Qed.

(* strings *)
Lemma sclass_plain c : (c =? 34) = false -> (c =? 92) = false -> (c <? 32) = false -> Json.sclass_of c = Json.SPlain.
Proof. intros H1 H2 H3. unfold Json.sclass_of. now rewrite H1, H2, H3. Qed.

Lemma eclass_simple e : is_esc1 e = true -> Json.eclass_of e = Json.ESimple.
Proof. intros H. unfold Json.eclass_of. unfold is_esc1 in H. now rewrite H. Qed.

Lemma eclass_u e : is_esc1 e = false -> (e =? 117) = true -> Json.eclass_of e = Json.EU.
Proof. intros H1 H2. unfold Json.eclass_of. unfold is_esc1 in H1. now rewrite H1, H2. Qed.

Lemma scan_str_pstr_len : forall m s r,
  (length s <= m)%nat -> scan_str SPlain s = Done r -> exists b, Json.pstr s = Some (b, r).
Proof.
  induction m as [|m IH]; intros s r Hl H.
  - destruct s; [discriminate | cbn in Hl; lia].
  - destruct s as [|c s1]; [discriminate|]. cbn [scan_str] in H. cbn [Json.pstr].
    destruct (c =? 34) eqn:E34.
    { inversion H; subst. unfold Json.sclass_of. rewrite E34. eauto. }
    destruct (c =? 92) eqn:E92.
    { unfold Json.sclass_of. rewrite E34, E92.
      destruct s1 as [|e s2]; [discriminate|]. cbn [scan_str] in H.
      destruct (is_esc1 e) eqn:Ee.
      - rewrite (eclass_simple e Ee). destruct (IH s2 r) as [b Hb]; [cbn in Hl; lia | exact H|].
        rewrite Hb. eauto.
      - destruct (e =? 117) eqn:Eu; [|discriminate]. rewrite (eclass_u e Ee Eu).
        destruct s2 as [|h1 s3]; [discriminate|]. cbn [scan_str] in H.
        destruct (is_hex h1) eqn:E1; [|discriminate].
        destruct s3 as [|h2 s4]; [discriminate|]. cbn [scan_str] in H.
        destruct (is_hex h2) eqn:E2; [|discriminate].
        destruct s4 as [|h3 s5]; [discriminate|]. cbn [scan_str] in H.
        destruct (is_hex h3) eqn:E3; [|discriminate].
        destruct s5 as [|h4 s6]; [discriminate|]. cbn [scan_str] in H.
        destruct (is_hex h4) eqn:E4; [|discriminate].
        cbv iota. rewrite (is_hex_same h1), (is_hex_same h2), (is_hex_same h3), (is_hex_same h4), E1, E2, E3, E4. cbn [andb].
        destruct (IH s6 r) as [b Hb]; [cbn in Hl; lia | exact H|]. rewrite Hb. eauto. }
    destruct (c <? 32) eqn:Ectl; [discriminate|].
    rewrite (sclass_plain c E34 E92 Ectl).
    destruct (IH s1 r) as [b Hb]; [cbn in Hl; lia | exact H|]. rewrite Hb. eauto.
Qed.

Lemma scan_str_pstr s r : scan_str SPlain s = Done r -> exists b, Json.pstr s = Some (b, r).
Proof. apply (scan_str_pstr_len (length s)). lia. Qed.

(* literals *)
Lemma scan_lit_text : forall l s r, scan_lit l s = Done r -> s = l ++ r.
Proof.
  induction l as [|a l IH]; intros s r H; cbn in H; [now inversion H|].
  destruct s as [|c s]; [discriminate|]. destruct (N.eqb_spec c a) as [->|]; [|discriminate].
  cbn. f_equal. now apply IH.
Qed.

Lemma strip_prefix_app p : forall r, Json.strip_prefix p (p ++ r) = Some r.
Proof. induction p as [|x p IH]; intros r; cbn; [reflexivity|]. now rewrite N.eqb_refl. Qed.

(* numbers: what follows the integer part *)
Definition after_int (s r : bytes) : Prop :=
  exists fp s3 ep, Json.p_frac s = Some (fp, s3) /\ Json.p_exp s3 = Some (ep, r).
Definition exp_part (s r : bytes) : Prop := exists ep, Json.p_exp s = Some (ep, r).

Lemma num_expdig : forall s r, scan_num NExpDig s = Done r -> exists ds, Json.digits s = (ds, r).
Proof.
  induction s as [|c s IH]; intros r H; cbn [scan_num] in H.
  - inversion H. exists []. reflexivity.
  - cbn [Json.digits]. rewrite is_digit_same. destruct (is_digit c).
    + destruct (IH r H) as [ds ->]. eauto.
    + inversion H. eauto.
Qed.

Lemma num_exp s r e : is_exp e = true -> scan_num NExp s = Done r -> exp_part (e :: s) r.
Proof.
  intros He H. unfold exp_part. cbn [Json.p_exp]. unfold is_exp in He. rewrite He.
  destruct s as [|c s']; [discriminate|]. cbn [scan_num] in H. cbn [Json.p_esign].
  destruct (is_sign c) eqn:Es.
  - unfold is_sign in Es. rewrite Es.
    destruct s' as [|c2 s2]; [discriminate|]. cbn [scan_num] in H.
    destruct (is_digit c2) eqn:Ed; [|discriminate].
    destruct (num_expdig s2 r H) as [ds Hds]. cbn [Json.digits]. rewrite is_digit_same, Ed, Hds. eauto.
  - unfold is_sign in Es. rewrite Es.
    destruct (is_digit c) eqn:Ed; [|discriminate].
    destruct (num_expdig s' r H) as [ds Hds]. cbn [Json.digits]. rewrite is_digit_same, Ed, Hds. eauto.
Qed.

Lemma p_exp_none c s : is_exp c = false -> Json.p_exp (c :: s) = Some ([], c :: s).
Proof. intros H. cbn [Json.p_exp]. unfold is_exp in H. now rewrite H. Qed.

Lemma is_exp_not_digit c : is_exp c = true -> is_digit c = false.
Proof.
  unfold is_exp, is_digit. intros H. apply orb_true_iff in H.
  destruct H as [H|H]; apply N.eqb_eq in H; subst; reflexivity.
Qed.

Lemma num_frac : forall s r, scan_num NFrac s = Done r ->
  exists fd s3, Json.digits s = (fd, s3) /\ exp_part s3 r.
Proof.
  induction s as [|c s IH]; intros r H; cbn [scan_num] in H.
  - inversion H. exists [], []. split; [reflexivity|]. exists []. reflexivity.
  - cbn [Json.digits]. rewrite is_digit_same. destruct (is_digit c) eqn:Ed.
    + destruct (IH r H) as [fd [s3 [-> He]]]. eauto.
    + destruct (is_exp c) eqn:Ee.
      * exists [], (c :: s). split; [reflexivity|]. now apply num_exp.
      * inversion H. exists [], (c :: s). split; [reflexivity|]. exists []. now apply p_exp_none.
Qed.

Lemma num_dot s r : scan_num NDot s = Done r -> after_int (46 :: s) r.
Proof.
  intros H. destruct s as [|c s']; [discriminate|]. cbn [scan_num] in H.
  destruct (is_digit c) eqn:Ed; [|discriminate].
  destruct (num_frac s' r H) as [fd [s3 [Hd [ep He]]]].
  unfold after_int. cbn [Json.p_frac]. change (46 =? 46) with true. cbv iota.
  cbn [Json.digits]. rewrite is_digit_same, Ed, Hd. eauto.
Qed.

Lemma p_frac_none c s : (c =? 46) = false -> Json.p_frac (c :: s) = Some ([], c :: s).
Proof. intros H. cbn [Json.p_frac]. now rewrite H. Qed.

(* state0 and state1 once the digits are over: optional fraction, optional exponent *)
Lemma num_tail : forall s r,
  match s with c :: _ => is_digit c = false | [] => True end ->
  scan_num NInt s = Done r -> after_int s r.
Proof.
  intros s r Hnd H. destruct s as [|c s'].
  - cbn in H. inversion H. exists [], [], []. split; reflexivity.
  - cbn [scan_num] in H. rewrite Hnd in H.
    destruct (c =? 46) eqn:E46.
    + apply N.eqb_eq in E46. subst c. now apply num_dot.
    + destruct (is_exp c) eqn:Ee.
      * destruct (num_exp s' r c Ee H) as [ep He]. exists [], (c :: s'), ep. split; [now apply p_frac_none | exact He].
      * inversion H. exists [], (c :: s'), []. split; [now apply p_frac_none | now apply p_exp_none].
Qed.

Lemma num_zero s r : scan_num NZero s = Done r -> after_int s r.
Proof.
  intros H. destruct s as [|c s'].
  - cbn in H. inversion H. exists [], [], []. split; reflexivity.
  - cbn [scan_num] in H.
    destruct (c =? 46) eqn:E46.
    + apply N.eqb_eq in E46. subst c. now apply num_dot.
    + destruct (is_exp c) eqn:Ee.
      * destruct (num_exp s' r c Ee H) as [ep He]. exists [], (c :: s'), ep. split; [now apply p_frac_none | exact He].
      * inversion H. exists [], (c :: s'), []. split; [now apply p_frac_none | now apply p_exp_none].
Qed.

Lemma num_int : forall s r, scan_num NInt s = Done r ->
  exists ds s2, Json.digits s = (ds, s2) /\ after_int s2 r.
Proof.
  induction s as [|c s IH]; intros r H.
  - exists [], []. split; [reflexivity|]. now apply num_tail.
  - cbn [Json.digits]. rewrite is_digit_same. destruct (is_digit c) eqn:Ed.
    + cbn [scan_num] in H. rewrite Ed in H. destruct (IH r H) as [ds [s2 [-> Ha]]]. eauto.
    + exists [], (c :: s). split; [reflexivity|]. apply num_tail; [exact Ed | exact H].
Qed.

Lemma digit19_props c : is_digit19 c = true ->
  is_digit c = true /\ (c =? 48) = false /\ (c =? 45) = false /\ 49 <= c <= 57.
Proof.
  unfold is_digit19, is_digit. intros H. apply andb_true_iff in H. destruct H as [H1 H2].
  apply N.leb_le in H1. apply N.leb_le in H2.
  repeat split; try lia; try (apply N.eqb_neq; lia).
  apply andb_true_iff. split; apply N.leb_le; lia.
Qed.

Lemma pnum_of_parts s sg s1 ip s2 r :
  Json.p_sign s = (sg, s1) -> Json.p_int s1 = Some (ip, s2) -> after_int s2 r ->
  exists n, Json.pnum s = Some (n, r).
Proof.
  intros H1 H2 [fp [s3 [ep [H3 H4]]]]. unfold Json.pnum. rewrite H1, H2, H3, H4. eauto.
Qed.

Lemma p_int_zero s : Json.p_int (48 :: s) = Some ([48], s).
Proof. reflexivity. Qed.

Lemma p_int_19 c s ds s2 : is_digit19 c = true -> Json.digits s = (ds, s2) -> Json.p_int (c :: s) = Some (c :: ds, s2).
Proof.
  intros H Hd. destruct (digit19_props c H) as [H1 [H2 _]]. cbn [Json.p_int].
  rewrite H2, is_digit_same, H1, Hd. reflexivity.
Qed.

(* the three ways a number starts *)
Lemma num_neg s r : scan_num NNeg s = Done r -> exists n, Json.pnum (45 :: s) = Some (n, r).
Proof.
  intros H. destruct s as [|c s']; [discriminate|]. cbn [scan_num] in H.
  destruct (c =? 48) eqn:E0.
  - apply N.eqb_eq in E0. subst c.
    apply (pnum_of_parts (45 :: 48 :: s') [45] (48 :: s') [48] s' r); [reflexivity | reflexivity | now apply num_zero].
  - destruct (is_digit19 c) eqn:E19; [|discriminate].
    destruct (num_int s' r H) as [ds [s2 [Hd Ha]]].
    apply (pnum_of_parts (45 :: c :: s') [45] (c :: s') (c :: ds) s2 r); [reflexivity | now apply p_int_19 | exact Ha].
Qed.

Lemma num_from_zero s r : scan_num NZero s = Done r -> exists n, Json.pnum (48 :: s) = Some (n, r).
Proof.
  intros H.
  apply (pnum_of_parts (48 :: s) [] (48 :: s) [48] s r); [reflexivity | reflexivity | now apply num_zero].
Qed.

Lemma num_from_19 c s r : is_digit19 c = true -> scan_num NInt s = Done r -> exists n, Json.pnum (c :: s) = Some (n, r).
Proof.
  intros Hc H. destruct (num_int s r H) as [ds [s2 [Hd Ha]]].
  destruct (digit19_props c Hc) as [_ [_ [H45 _]]].
  apply (pnum_of_parts (c :: s) [] (c :: s) (c :: ds) s2 r); [|now apply p_int_19 | exact Ha].
  cbn [Json.p_sign]. now rewrite H45.
Qed.

(* ------------------------------------------------------------------------------------------- *)
(* Part 2: values, elements, members *)

Definition PE (d : N) (w s : bytes) (es : list (bytes * Json.cst * bytes)) (r : bytes) : Prop :=
  forall g, (2 * length s <= g)%nat -> Json.pelems g d w s = Some (es, r).
Definition PM (d : N) (w s : bytes) (ms : list ((bytes * bytes * bytes) * (bytes * Json.cst * bytes))) (r : bytes) : Prop :=
  forall g, (2 * length s <= g)%nat -> Json.pmems g d w s = Some (ms, r).

Lemma pelems_PE f d w s es r : Json.pelems f d w s = Some (es, r) -> PE d w s es r.
Proof.
  intros H g Hg. destruct (proj1 (proj2 (JsonPrint.parser_fuel f)) _ _ _ _ _ H) as [L F].
  apply F; [lia | lia].
Qed.

Lemma pmems_PM f d w s ms r : Json.pmems f d w s = Some (ms, r) -> PM d w s ms r.
Proof.
  intros H g Hg. destruct (proj2 (proj2 (JsonPrint.parser_fuel f)) _ _ _ _ _ H) as [L F].
  apply F; [lia | lia].
Qed.

Lemma tok_other c :
  (c =? 34) = false -> (c =? 91) = false -> (c =? 93) = false -> (c =? 123) = false ->
  (c =? 125) = false -> (c =? 44) = false -> (c =? 58) = false -> Json.tok_of c = Json.TOther.
Proof. intros H1 H2 H3 H4 H5 H6 H7. unfold Json.tok_of. now rewrite H1, H2, H3, H4, H5, H6, H7. Qed.

Lemma tok_other_19 c : is_digit19 c = true -> Json.tok_of c = Json.TOther.
Proof.
  intros H. destruct (digit19_props c H) as [_ [_ [_ Hr]]].
  apply tok_other; apply N.eqb_neq; lia.
Qed.

Lemma tok_rbrace c : Json.tok_of c = Json.TRBrace -> c = 125.
Proof.
  unfold Json.tok_of.
  destruct (c =? 34); [discriminate|]. destruct (c =? 91); [discriminate|]. destruct (c =? 93); [discriminate|].
  destruct (c =? 123); [discriminate|]. destruct (N.eqb_spec c 125); [auto|].
  destruct (c =? 44); [discriminate|]. destruct (c =? 58); discriminate.
Qed.

Lemma tok_rbrack c : Json.tok_of c = Json.TRBrack -> c = 93.
Proof.
  unfold Json.tok_of.
  destruct (c =? 34); [discriminate|]. destruct (c =? 91); [discriminate|]. destruct (N.eqb_spec c 93); [auto|].
  destruct (c =? 123); [discriminate|]. destruct (c =? 125); [discriminate|].
  destruct (c =? 44); [discriminate|]. destruct (c =? 58); discriminate.
Qed.

(* a number read by pscalar *)
Lemma pscalar_num c s n r :
  c = 45 \/ 48 <= c <= 57 -> Json.pnum (c :: s) = Some (n, r) -> Json.pscalar (c :: s) = Some (Json.CNum n, r).
Proof.
  intros Hc H. unfold Json.pscalar.
  assert (H1 : Json.strip_prefix Json.lit_true (c :: s) = None).
  { unfold Json.lit_true. cbn [Json.strip_prefix]. destruct (N.eqb_spec 116 c); [lia | reflexivity]. }
  assert (H2 : Json.strip_prefix Json.lit_false (c :: s) = None).
  { unfold Json.lit_false. cbn [Json.strip_prefix]. destruct (N.eqb_spec 102 c); [lia | reflexivity]. }
  assert (H3 : Json.strip_prefix Json.lit_null (c :: s) = None).
  { unfold Json.lit_null. cbn [Json.strip_prefix]. destruct (N.eqb_spec 110 c); [lia | reflexivity]. }
  now rewrite H1, H2, H3, H.
Qed.

Lemma pval_scalar g d c s : Json.tok_of c = Json.TOther -> Json.pval (S g) d (c :: s) = Json.pscalar (c :: s).
Proof. intros H. cbn [Json.pval Json.tk]. now rewrite H. Qed.

Lemma sp_all : forall f,
  (forall d s r, scan_value f d s = Done r -> exists c, JsonPrint.PV d (skip_ws s) c r) /\
  (forall d s r, scan_elems f d s = Done r -> forall w, exists es, PE d w (skip_ws s) es r) /\
  (forall d s r, scan_members f d s = Done r -> forall w, exists ms, PM d w (skip_ws s) ms r).
Proof.
  induction f as [|f [IHv [IHe IHm]]].
  - repeat split; intros; discriminate.
  - repeat split.
    + (* value *)
      intros d s r H. rewrite scan_value_S in H.
      destruct (skip_ws s) as [|c s'] eqn:Ews; [discriminate|].
      destruct (N.eqb_spec c 34) as [->|N34].
      { destruct (scan_str_pstr s' r H) as [b Hb]. exists (Json.CStr b).
        apply (JsonPrint.pval_PV 1). cbn [Json.pval Json.tk]. change (Json.tok_of 34) with Json.TQuote.
        cbv iota. now rewrite Hb. }
      destruct (N.eqb_spec c 123) as [->|N123].
      { destruct (max_depth <=? d) eqn:Ed; [discriminate|].
        destruct (skip_ws s') as [|c2 s2] eqn:E2; [discriminate|].
        destruct (split_ws_skip s') as [w Hw]. rewrite E2 in Hw.
        destruct (N.eqb_spec c2 125) as [->|N125].
        - inversion H; subst. exists (Json.CObj w []).
          apply (JsonPrint.pval_PV 1). cbn [Json.pval Json.tk]. change (Json.tok_of 123) with Json.TLBrace.
          cbv iota. change Json.max_depth with max_depth. rewrite Ed, Hw. reflexivity.
        - destruct (IHm (d + 1) (c2 :: s2) r H w) as [ms Hms].
          rewrite (skip_ws_nows c2 s2 (skip_ws_head _ _ _ E2)), N.add_1_r in Hms.
          exists (Json.CObj [] ms).
          apply (JsonPrint.pval_PV (S (2 * length (c2 :: s2)))).
          cbn [Json.pval]. cbn [Json.tk]. change (Json.tok_of 123) with Json.TLBrace.
          cbv iota. change Json.max_depth with max_depth. rewrite Ed, Hw. cbn [Json.tk].
          rewrite (Hms _ (le_n _)).
          destruct (Json.tok_of c2) eqn:Et; try reflexivity.
          exfalso. apply N125. now apply tok_rbrace. }
      destruct (N.eqb_spec c 91) as [->|N91].
      { destruct (max_depth <=? d) eqn:Ed; [discriminate|].
        destruct (skip_ws s') as [|c2 s2] eqn:E2; [discriminate|].
        destruct (split_ws_skip s') as [w Hw]. rewrite E2 in Hw.
        destruct (N.eqb_spec c2 93) as [->|N93].
        - inversion H; subst. exists (Json.CArr w []).
          apply (JsonPrint.pval_PV 1). cbn [Json.pval Json.tk]. change (Json.tok_of 91) with Json.TLBrack.
          cbv iota. change Json.max_depth with max_depth. rewrite Ed, Hw. reflexivity.
        - destruct (IHe (d + 1) (c2 :: s2) r H w) as [es Hes].
          rewrite (skip_ws_nows c2 s2 (skip_ws_head _ _ _ E2)), N.add_1_r in Hes.
          exists (Json.CArr [] es).
          apply (JsonPrint.pval_PV (S (2 * length (c2 :: s2)))).
          cbn [Json.pval]. cbn [Json.tk]. change (Json.tok_of 91) with Json.TLBrack.
          cbv iota. change Json.max_depth with max_depth. rewrite Ed, Hw. cbn [Json.tk].
          rewrite (Hes _ (le_n _)).
          destruct (Json.tok_of c2) eqn:Et; try reflexivity.
          exfalso. apply N93. now apply tok_rbrack. }
      destruct (N.eqb_spec c 45) as [->|N45].
      { destruct (num_neg s' r H) as [n Hn]. exists (Json.CNum n).
        apply (JsonPrint.pval_PV 1). rewrite pval_scalar by reflexivity.
        apply pscalar_num; [now left | exact Hn]. }
      destruct (N.eqb_spec c 48) as [->|N48].
      { destruct (num_from_zero s' r H) as [n Hn]. exists (Json.CNum n).
        apply (JsonPrint.pval_PV 1). rewrite pval_scalar by reflexivity.
        apply pscalar_num; [right; lia | exact Hn]. }
      destruct (is_digit19 c) eqn:E19.
      { destruct (num_from_19 c s' r E19 H) as [n Hn]. exists (Json.CNum n).
        apply (JsonPrint.pval_PV 1). rewrite pval_scalar by (now apply tok_other_19).
        destruct (digit19_props c E19) as [_ [_ [_ Hr]]].
        apply pscalar_num; [right; lia | exact Hn]. }
      destruct (N.eqb_spec c 116) as [->|N116].
      { rewrite (scan_lit_text _ _ _ H). exists Json.CTrue.
        apply (JsonPrint.pval_PV 1). rewrite pval_scalar by reflexivity.
        unfold Json.pscalar. change (116 :: lit_rue ++ r) with (Json.lit_true ++ r).
        now rewrite strip_prefix_app. }
      destruct (N.eqb_spec c 102) as [->|N102].
      { rewrite (scan_lit_text _ _ _ H). exists Json.CFalse.
        apply (JsonPrint.pval_PV 1). rewrite pval_scalar by reflexivity.
        unfold Json.pscalar. change (102 :: lit_alse ++ r) with (Json.lit_false ++ r).
        rewrite strip_prefix_app. reflexivity. }
      destruct (N.eqb_spec c 110) as [->|N110]; [|discriminate].
      { rewrite (scan_lit_text _ _ _ H). exists Json.CNull.
        apply (JsonPrint.pval_PV 1). rewrite pval_scalar by reflexivity.
        unfold Json.pscalar. change (110 :: lit_ull ++ r) with (Json.lit_null ++ r).
        rewrite strip_prefix_app. reflexivity. }
    + (* elements *)
      intros d s r H w. rewrite scan_elems_S in H.
      destruct (scan_value f d s) as [r1| | |] eqn:Ev; try discriminate.
      destruct (IHv d s r1 Ev) as [c0 Hc0].
      destruct (skip_ws r1) as [|c r'] eqn:Er; [discriminate|].
      destruct (split_ws_skip r1) as [wa Hwa]. rewrite Er in Hwa.
      destruct (N.eqb_spec c 44) as [->|N44].
      * destruct (split_ws_skip r') as [wb Hwb].
        destruct (IHe d r' r H wb) as [es Hes].
        exists ((w, c0, wa) :: es).
        apply (pelems_PE (S (2 * length (skip_ws s) + 2 * length (skip_ws r')))).
        cbn [Json.pelems]. rewrite (Hc0 _ d) by lia. rewrite Hwa. cbn [Json.tk].
        change (Json.tok_of 44) with Json.TComma. cbv iota. rewrite Hwb.
        rewrite (Hes _) by lia. reflexivity.
      * destruct (N.eqb_spec c 93) as [->|N93]; [|discriminate]. inversion H; subst r'.
        exists [(w, c0, wa)].
        apply (pelems_PE (S (2 * length (skip_ws s)))).
        cbn [Json.pelems]. rewrite (Hc0 _ d) by lia. rewrite Hwa. reflexivity.
    + (* members *)
      intros d s r H w. rewrite scan_members_S in H.
      destruct (skip_ws s) as [|c s1] eqn:Ews; [discriminate|].
      destruct (N.eqb_spec c 34) as [->|N34]; [|discriminate].
      destruct (scan_str SPlain s1) as [s2| | |] eqn:Es; try discriminate.
      destruct (scan_str_pstr s1 s2 Es) as [k Hk].
      destruct (skip_ws s2) as [|c2 s3] eqn:E2; [discriminate|].
      destruct (split_ws_skip s2) as [wc Hwc]. rewrite E2 in Hwc.
      destruct (N.eqb_spec c2 58) as [->|N58]; [|discriminate].
      destruct (scan_value f d s3) as [s4| | |] eqn:Ev; try discriminate.
      destruct (IHv d s3 s4 Ev) as [c0 Hc0].
      destruct (split_ws_skip s3) as [wv Hwv].
      destruct (skip_ws s4) as [|c3 s5] eqn:E4; [discriminate|].
      destruct (split_ws_skip s4) as [wa Hwa]. rewrite E4 in Hwa.
      destruct (N.eqb_spec c3 44) as [->|N44].
      * destruct (split_ws_skip s5) as [wb Hwb].
        destruct (IHm d s5 r H wb) as [ms Hms].
        exists (((w, k, wc), (wv, c0, wa)) :: ms).
        apply (pmems_PM (S (2 * length (skip_ws s3) + 2 * length (skip_ws s5)))).
        cbn [Json.pmems]. cbn [Json.tk]. change (Json.tok_of 34) with Json.TQuote. cbv iota.
        rewrite Hk, Hwc. cbn [Json.tk]. change (Json.tok_of 58) with Json.TColon. cbv iota.
        rewrite Hwv. rewrite (Hc0 _ d) by lia. rewrite Hwa. cbn [Json.tk].
        change (Json.tok_of 44) with Json.TComma. cbv iota. rewrite Hwb.
        rewrite (Hms _) by lia. reflexivity.
      * destruct (N.eqb_spec c3 125) as [->|N125]; [|discriminate]. inversion H; subst s5.
        exists [((w, k, wc), (wv, c0, wa))].
        apply (pmems_PM (S (2 * length (skip_ws s3)))).
        cbn [Json.pmems]. cbn [Json.tk]. change (Json.tok_of 34) with Json.TQuote. cbv iota.
        rewrite Hk, Hwc. cbn [Json.tk]. change (Json.tok_of 58) with Json.TColon. cbv iota.
        rewrite Hwv. rewrite (Hc0 _ d) by lia. rewrite Hwa. reflexivity.
Qed.

(* the scanner accepts only what the independent grammar accepts, with the same end *)
Theorem scan_value_parses : forall f d s r,
  scan_value f d s = Done r -> exists c, JsonPrint.PV d (skip_ws s) c r.
Proof. intros f d s r H. exact (proj1 (sp_all f) d s r H). Qed.

(* ------------------------------------------------------------------------------------------- *)
(* Part 3: tail replacement.  If the scanner, given s, stops with r left, then s = q ++ r and the
   scanner stops in the same way, with t left, on q ++ t - for every t that is empty or starts
   with the same byte as r (only a number looks at the byte after it). *)

Definition ok_tail (r t : bytes) : Prop := t = [] \/ exists c r0 t0, r = c :: r0 /\ t = c :: t0.

Lemma ok_tail_same j c x y : ok_tail (j ++ c :: x) (j ++ c :: y).
Proof. right. destruct j as [|a j]; cbn [app]; eauto. Qed.

Lemma skip_ws_ws_cons j c x : all_ws j -> is_ws c = false -> skip_ws (j ++ c :: x) = c :: x.
Proof. intros Hj Hc. rewrite skip_ws_app by assumption. now apply skip_ws_nows. Qed.

Lemma skip_ws_decomp s c s' : skip_ws s = c :: s' -> exists j, s = j ++ c :: s' /\ all_ws j /\ is_ws c = false.
Proof.
  intros E. destruct (skip_ws_split s) as [j [Es Hj]]. rewrite E in Es.
  exists j. split; [exact Es|]. split; [exact Hj|]. eapply skip_ws_head; exact E.
Qed.

Ltac norm_app := repeat (rewrite <- app_assoc || rewrite <- app_comm_cons); cbn [app].

Lemma str_q : forall s st r, scan_str st s = Done r ->
  exists q, s = q ++ r /\ forall t, scan_str st (q ++ t) = Done t.
Proof.
  induction s as [|c s IH]; intros st r H; cbn [scan_str] in H; [discriminate|].
  assert (G : forall st', scan_str st' s = Done r ->
              (forall t q, scan_str st ((c :: q) ++ t) = scan_str st' (q ++ t)) ->
              exists q, c :: s = q ++ r /\ forall t, scan_str st (q ++ t) = Done t).
  { intros st' H' Hstep. destruct (IH st' r H') as [q [-> Hq]]. exists (c :: q). split; [reflexivity|].
    intros t. rewrite Hstep. apply Hq. }
  destruct st.
  - destruct (c =? 34) eqn:E34.
    { inversion H; subst. exists [c]. split; [reflexivity|]. intros t. cbn [app scan_str]. now rewrite E34. }
    destruct (c =? 92) eqn:E92.
    { apply (G SEsc H). intros t q. cbn [app scan_str]. now rewrite E34, E92. }
    destruct (c <? 32) eqn:Ec; [discriminate|].
    apply (G SPlain H). intros t q. cbn [app scan_str]. now rewrite E34, E92, Ec.
  - destruct (is_esc1 c) eqn:Ee.
    { apply (G SPlain H). intros t q. cbn [app scan_str]. now rewrite Ee. }
    destruct (c =? 117) eqn:Eu; [|discriminate].
    apply (G (SHex 3) H). intros t q. cbn [app scan_str]. now rewrite Ee, Eu.
  - destruct (is_hex c) eqn:Eh; [|discriminate]. destruct k as [|k].
    + apply (G SPlain H). intros t q. cbn [app scan_str]. now rewrite Eh.
    + apply (G (SHex k) H). intros t q. cbn [app scan_str]. now rewrite Eh.
Qed.

Lemma scan_lit_app : forall l t, scan_lit l (l ++ t) = Done t.
Proof. induction l as [|a l IH]; intros t; cbn; [reflexivity|]. now rewrite N.eqb_refl. Qed.

Lemma lit_q l s r : scan_lit l s = Done r ->
  exists q, s = q ++ r /\ forall t, scan_lit l (q ++ t) = Done t.
Proof. intros H. exists l. split; [now apply scan_lit_text | apply scan_lit_app]. Qed.

Lemma num_q : forall s st r, scan_num st s = Done r ->
  exists q, s = q ++ r /\ forall t, ok_tail r t -> scan_num st (q ++ t) = Done t.
Proof.
  induction s as [|c s IH]; intros st r H.
  - exists []. cbn in H. split; [destruct st; inversion H; reflexivity|].
    intros t [->|[c [r0 [t0 [Hr _]]]]].
    + cbn [app]. destruct st; inversion H; reflexivity.
    + destruct st; inversion H; subst; discriminate.
  - assert (G : forall st', scan_num st' s = Done r ->
                (forall t q, scan_num st ((c :: q) ++ t) = scan_num st' (q ++ t)) ->
                exists q, c :: s = q ++ r /\ forall t, ok_tail r t -> scan_num st (q ++ t) = Done t).
    { intros st' H' Hstep. destruct (IH st' r H') as [q [-> Hq]]. exists (c :: q). split; [reflexivity|].
      intros t Ht. rewrite Hstep. now apply Hq. }
    assert (T : r = c :: s -> scan_num st [] = Done [] ->
                (forall t0, scan_num st (c :: t0) = Done (c :: t0)) ->
                exists q, c :: s = q ++ r /\ forall t, ok_tail r t -> scan_num st (q ++ t) = Done t).
    { intros -> Hnil Hsame. exists []. split; [reflexivity|].
      intros t [->|[c' [r0 [t0 [Hr ->]]]]]; cbn [app]; [exact Hnil|]. inversion Hr; subst. apply Hsame. }
    cbn [scan_num] in H. destruct st.
    + (* NNeg *)
      destruct (c =? 48) eqn:E0; [apply (G NZero H); intros t q; cbn [app scan_num]; now rewrite E0|].
      destruct (is_digit19 c) eqn:E19; [|discriminate].
      apply (G NInt H). intros t q. cbn [app scan_num]. now rewrite E0, E19.
    + (* NZero *)
      destruct (c =? 46) eqn:E46; [apply (G NDot H); intros t q; cbn [app scan_num]; now rewrite E46|].
      destruct (is_exp c) eqn:Ee; [apply (G NExp H); intros t q; cbn [app scan_num]; now rewrite E46, Ee|].
      injection H as H1. apply T; [now symmetry | reflexivity|]. intros t0. cbn [scan_num]. now rewrite E46, Ee.
    + (* NInt *)
      destruct (is_digit c) eqn:Ed; [apply (G NInt H); intros t q; cbn [app scan_num]; now rewrite Ed|].
      destruct (c =? 46) eqn:E46; [apply (G NDot H); intros t q; cbn [app scan_num]; now rewrite Ed, E46|].
      destruct (is_exp c) eqn:Ee; [apply (G NExp H); intros t q; cbn [app scan_num]; now rewrite Ed, E46, Ee|].
      injection H as H1. apply T; [now symmetry | reflexivity|]. intros t0. cbn [scan_num]. now rewrite Ed, E46, Ee.
    + (* NDot *)
      destruct (is_digit c) eqn:Ed; [|discriminate].
      apply (G NFrac H). intros t q. cbn [app scan_num]. now rewrite Ed.
    + (* NFrac *)
      destruct (is_digit c) eqn:Ed; [apply (G NFrac H); intros t q; cbn [app scan_num]; now rewrite Ed|].
      destruct (is_exp c) eqn:Ee; [apply (G NExp H); intros t q; cbn [app scan_num]; now rewrite Ed, Ee|].
      injection H as H1. apply T; [now symmetry | reflexivity|]. intros t0. cbn [scan_num]. now rewrite Ed, Ee.
    + (* NExp *)
      destruct (is_sign c) eqn:Es; [apply (G NExpSign H); intros t q; cbn [app scan_num]; now rewrite Es|].
      destruct (is_digit c) eqn:Ed; [|discriminate].
      apply (G NExpDig H). intros t q. cbn [app scan_num]. now rewrite Es, Ed.
    + (* NExpSign *)
      destruct (is_digit c) eqn:Ed; [|discriminate].
      apply (G NExpDig H). intros t q. cbn [app scan_num]. now rewrite Ed.
    + (* NExpDig *)
      destruct (is_digit c) eqn:Ed; [apply (G NExpDig H); intros t q; cbn [app scan_num]; now rewrite Ed|].
      injection H as H1. apply T; [now symmetry | reflexivity|]. intros t0. cbn [scan_num]. now rewrite Ed.
Qed.

Lemma swap_all : forall f,
  (forall d s r, scan_value f d s = Done r ->
     exists q, s = q ++ r /\ forall t, ok_tail r t -> scan_value f d (q ++ t) = Done t) /\
  (forall d s r, scan_elems f d s = Done r ->
     exists q, s = q ++ r /\ forall t, ok_tail r t -> scan_elems f d (q ++ t) = Done t) /\
  (forall d s r, scan_members f d s = Done r ->
     exists q, s = q ++ r /\ forall t, ok_tail r t -> scan_members f d (q ++ t) = Done t).
Proof.
  induction f as [|f [IHv [IHe IHm]]].
  - repeat split; intros; discriminate.
  - repeat split.
    + (* value *)
      intros d s r H. rewrite scan_value_S in H.
      destruct (skip_ws s) as [|c s'] eqn:Ews; [discriminate|].
      destruct (skip_ws_decomp _ _ _ Ews) as [j [-> [Hj Hc]]].
      (* a leaf: the rest of the value is scanned by [leaf] on s' *)
      assert (L : forall (leaf : bytes -> outcome),
        leaf s' = Done r ->
        (forall x, scan_value (S f) d (j ++ c :: x) = leaf x) ->
        (forall x, leaf x = Done r -> exists q, x = q ++ r /\ forall t, ok_tail r t -> leaf (q ++ t) = Done t) ->
        exists q, j ++ c :: s' = q ++ r /\ forall t, ok_tail r t -> scan_value (S f) d (q ++ t) = Done t).
      { intros leaf Hl Hrun Hq. destruct (Hq s' Hl) as [q [-> Hq']].
        exists (j ++ c :: q). split; [now norm_app|]. intros t Ht. norm_app. rewrite Hrun. now apply Hq'. }
      assert (Run : forall x, scan_value (S f) d (j ++ c :: x) =
        if c =? 34 then scan_str SPlain x
        else if c =? 123 then
          if max_depth <=? d then Syntax
          else match skip_ws x with
               | [] => Trunc
               | c2 :: s2 => if c2 =? 125 then Done s2 else scan_members f (d + 1) (c2 :: s2)
               end
        else if c =? 91 then
          if max_depth <=? d then Syntax
          else match skip_ws x with
               | [] => Trunc
               | c2 :: s2 => if c2 =? 93 then Done s2 else scan_elems f (d + 1) (c2 :: s2)
               end
        else if c =? 45 then scan_num NNeg x
        else if c =? 48 then scan_num NZero x
        else if is_digit19 c then scan_num NInt x
        else if c =? 116 then scan_lit lit_rue x
        else if c =? 102 then scan_lit lit_alse x
        else if c =? 110 then scan_lit lit_ull x
        else Syntax).
      { intros x. rewrite scan_value_S. now rewrite (skip_ws_ws_cons j c x Hj Hc). }
      destruct (c =? 34) eqn:E34.
      { apply (L (scan_str SPlain) H); [intros x; now rewrite Run|].
        intros x Hx. destruct (str_q _ _ _ Hx) as [q [-> Hq]]. exists q. split; [reflexivity|]. intros t _. apply Hq. }
      destruct (c =? 123) eqn:E123.
      { destruct (max_depth <=? d) eqn:Ed; [discriminate|].
        destruct (skip_ws s') as [|c2 s2] eqn:E2; [discriminate|].
        destruct (skip_ws_decomp _ _ _ E2) as [j2 [-> [Hj2 Hc2]]].
        destruct (c2 =? 125) eqn:E125.
        - inversion H; subst s2. exists (j ++ c :: j2 ++ [c2]). split; [now norm_app|].
          intros t _. norm_app. rewrite Run. cbn [app]. rewrite (skip_ws_ws_cons j2 c2 t Hj2 Hc2), E125. reflexivity.
        - destruct (IHm (d + 1) (c2 :: s2) r H) as [q [Eq Hq]].
          destruct q as [|c2' q'].
          { exfalso. specialize (Hq [] (or_introl eq_refl)). cbn [app] in Hq.
            destruct f; [discriminate|]. rewrite scan_members_S in Hq. discriminate. }
          cbn [app] in Eq. inversion Eq; subst c2' s2.
          exists (j ++ c :: j2 ++ c2 :: q'). split; [now norm_app|].
          intros t Ht. norm_app. rewrite Run. rewrite (skip_ws_ws_cons j2 c2 (q' ++ t) Hj2 Hc2), E125.
          exact (Hq t Ht). }
      destruct (c =? 91) eqn:E91.
      { destruct (max_depth <=? d) eqn:Ed; [discriminate|].
        destruct (skip_ws s') as [|c2 s2] eqn:E2; [discriminate|].
        destruct (skip_ws_decomp _ _ _ E2) as [j2 [-> [Hj2 Hc2]]].
        destruct (c2 =? 93) eqn:E93.
        - inversion H; subst s2. exists (j ++ c :: j2 ++ [c2]). split; [now norm_app|].
          intros t _. norm_app. rewrite Run. cbn [app]. rewrite (skip_ws_ws_cons j2 c2 t Hj2 Hc2), E93. reflexivity.
        - destruct (IHe (d + 1) (c2 :: s2) r H) as [q [Eq Hq]].
          destruct q as [|c2' q'].
          { exfalso. specialize (Hq [] (or_introl eq_refl)). cbn [app] in Hq.
            destruct f; [discriminate|]. rewrite scan_elems_S in Hq.
            destruct f; [discriminate|]. rewrite scan_value_S in Hq. discriminate. }
          cbn [app] in Eq. inversion Eq; subst c2' s2.
          exists (j ++ c :: j2 ++ c2 :: q'). split; [now norm_app|].
          intros t Ht. norm_app. rewrite Run. rewrite (skip_ws_ws_cons j2 c2 (q' ++ t) Hj2 Hc2), E93.
          exact (Hq t Ht). }
      destruct (c =? 45) eqn:E45.
      { apply (L (scan_num NNeg) H); [intros x; now rewrite Run | intros x Hx; now apply num_q]. }
      destruct (c =? 48) eqn:E48.
      { apply (L (scan_num NZero) H); [intros x; now rewrite Run | intros x Hx; now apply num_q]. }
      destruct (is_digit19 c) eqn:E19.
      { apply (L (scan_num NInt) H); [intros x; now rewrite Run | intros x Hx; now apply num_q]. }
      destruct (c =? 116) eqn:E116.
      { apply (L (scan_lit lit_rue) H); [intros x; now rewrite Run|].
        intros x Hx. destruct (lit_q _ _ _ Hx) as [q [-> Hq]]. exists q. split; [reflexivity|]. intros t _. apply Hq. }
      destruct (c =? 102) eqn:E102.
      { apply (L (scan_lit lit_alse) H); [intros x; now rewrite Run|].
        intros x Hx. destruct (lit_q _ _ _ Hx) as [q [-> Hq]]. exists q. split; [reflexivity|]. intros t _. apply Hq. }
      destruct (c =? 110) eqn:E110; [|discriminate].
      { apply (L (scan_lit lit_ull) H); [intros x; now rewrite Run|].
        intros x Hx. destruct (lit_q _ _ _ Hx) as [q [-> Hq]]. exists q. split; [reflexivity|]. intros t _. apply Hq. }
    + (* elements *)
      intros d s r H. rewrite scan_elems_S in H.
      destruct (scan_value f d s) as [r1| | |] eqn:Ev; try discriminate.
      destruct (IHv d s r1 Ev) as [q1 [-> Hq1]].
      destruct (skip_ws r1) as [|c r'] eqn:Er; [discriminate|].
      destruct (skip_ws_decomp _ _ _ Er) as [j [-> [Hj Hc]]].
      destruct (c =? 44) eqn:E44.
      * destruct (IHe d r' r H) as [q3 [-> Hq3]].
        exists (q1 ++ j ++ c :: q3). split; [now norm_app|].
        intros t Ht. norm_app. rewrite scan_elems_S.
        rewrite (Hq1 (j ++ c :: q3 ++ t) (ok_tail_same j c _ _)).
        rewrite (skip_ws_ws_cons j c _ Hj Hc), E44. now apply Hq3.
      * destruct (c =? 93) eqn:E93; [|discriminate]. inversion H; subst r'.
        exists (q1 ++ j ++ [c]). split; [now norm_app|].
        intros t Ht. norm_app. rewrite scan_elems_S.
        rewrite (Hq1 (j ++ c :: t) (ok_tail_same j c _ _)).
        cbn [app]. rewrite (skip_ws_ws_cons j c _ Hj Hc), E44, E93. reflexivity.
    + (* members *)
      intros d s r H. rewrite scan_members_S in H.
      destruct (skip_ws s) as [|c s1] eqn:Ews; [discriminate|].
      destruct (skip_ws_decomp _ _ _ Ews) as [j0 [-> [Hj0 Hc0]]].
      destruct (c =? 34) eqn:E34; [|discriminate].
      destruct (scan_str SPlain s1) as [s2| | |] eqn:Es; try discriminate.
      destruct (str_q _ _ _ Es) as [q1 [-> Hq1]].
      destruct (skip_ws s2) as [|c2 s3] eqn:E2; [discriminate|].
      destruct (skip_ws_decomp _ _ _ E2) as [j2 [-> [Hj2 Hc2]]].
      destruct (c2 =? 58) eqn:E58; [|discriminate].
      destruct (scan_value f d s3) as [s4| | |] eqn:Ev; try discriminate.
      destruct (IHv d s3 s4 Ev) as [q3 [-> Hq3]].
      destruct (skip_ws s4) as [|c3 s5] eqn:E4; [discriminate|].
      destruct (skip_ws_decomp _ _ _ E4) as [j4 [-> [Hj4 Hc4]]].
      destruct (c3 =? 44) eqn:E44.
      * destruct (IHm d s5 r H) as [q5 [-> Hq5]].
        exists (j0 ++ c :: q1 ++ j2 ++ c2 :: q3 ++ j4 ++ c3 :: q5). split; [now norm_app|].
        intros t Ht. norm_app. rewrite scan_members_S.
        rewrite (skip_ws_ws_cons j0 c _ Hj0 Hc0), E34, Hq1.
        rewrite (skip_ws_ws_cons j2 c2 _ Hj2 Hc2), E58.
        rewrite (Hq3 (j4 ++ c3 :: q5 ++ t) (ok_tail_same j4 c3 _ _)).
        rewrite (skip_ws_ws_cons j4 c3 _ Hj4 Hc4), E44. now apply Hq5.
      * destruct (c3 =? 125) eqn:E125; [|discriminate]. inversion H; subst s5.
        exists (j0 ++ c :: q1 ++ j2 ++ c2 :: q3 ++ j4 ++ [c3]). split; [now norm_app|].
        intros t Ht. norm_app. rewrite scan_members_S.
        rewrite (skip_ws_ws_cons j0 c _ Hj0 Hc0), E34, Hq1.
        rewrite (skip_ws_ws_cons j2 c2 _ Hj2 Hc2), E58.
        rewrite (Hq3 (j4 ++ c3 :: t) (ok_tail_same j4 c3 _ _)).
        cbn [app]. rewrite (skip_ws_ws_cons j4 c3 _ Hj4 Hc4), E44, E125. reflexivity.
Qed.

(* the value the scanner delimited in front of [rest] is a complete value on its own *)
Lemma scan_value_alone f d raw rest :
  scan_value f d (raw ++ rest) = Done rest -> scan_value f d raw = Done [].
Proof.
  intros H. destruct (proj1 (swap_all f) d _ _ H) as [q [E Hq]].
  apply app_inv_tail in E. subst q. specialize (Hq [] (or_introl eq_refl)). now rewrite app_nil_r in Hq.
Qed.

(* ------------------------------------------------------------------------------------------- *)
(* Part 4: what RawJSON's Recv returns is valid JSON by the independent grammar *)

(* the span the scanner delimits is exactly one JSON value of the grammar of Json.v: json.Valid
   accepts it (Json.valid), it has no surrounding white space and parses as a value at depth 0
   (Json.tight_at 0) *)
Theorem scan_span_valid : forall raw rest,
  (exists c t, raw = c :: t /\ is_ws c = false) -> scan (raw ++ rest) = Done rest ->
  Json.valid raw = true /\ Json.tight_at 0 raw = true.
Proof.
  intros raw rest [c [t [-> Hc]]] H. unfold scan in H. apply scan_value_alone in H.
  destruct (scan_value_parses _ _ _ _ H) as [cst Hpv].
  rewrite (skip_ws_nows c t Hc) in Hpv. split.
  - unfold Json.valid. now rewrite (JsonPrint.parse_doc_PV _ _ Hpv).
  - exact (JsonPrint.PV_tight _ _ _ Hpv).
Qed.

(* C12 soundness against the independent grammar: every non-empty record Recv returns is valid JSON *)
Theorem rawjson_recv_valid : forall s r rest,
  recv None s = Ok r None rest -> r <> [] -> Json.valid r = true.
Proof.
  intros s r rest H Hne.
  destruct (rawjson_sound _ _ _ _ _ H) as [_ [_ [j [raw [_ [_ [Hh [Hsc Hr]]]]]]]].
  destruct (is_null raw); [congruence|]. subst r.
  exact (proj1 (scan_span_valid raw rest Hh Hsc)).
Qed.

(* the same for every decoder state, with the empty record accounted for: the bytes consumed are
   white space followed by exactly one valid JSON value, which is the record unless it is null *)
Theorem rawjson_recv_grammar : forall st s r st' rest,
  recv st s = Ok r st' rest ->
  exists j raw, s = j ++ raw ++ rest /\ all_ws j /\
                Json.valid raw = true /\ Json.tight_at 0 raw = true /\
                r = (if is_null raw then [] else raw).
Proof.
  intros st s r st' rest H.
  destruct (rawjson_sound _ _ _ _ _ H) as [_ [_ [j [raw [Es [Hj [Hh [Hsc Hr]]]]]]]].
  destruct (scan_span_valid raw rest Hh Hsc) as [H1 H2]. exists j, raw. auto.
Qed.

Example rawjson_recv_valid_nonvacuous :
  (* space, an object with a nested array, numbers, an escape, then the next record *)
  recv None ([32; 123; 34; 97; 92; 110; 34; 58; 91; 49; 44; 45; 50; 46; 53; 101; 43; 51; 44; 116; 114; 117; 101; 93; 125] ++ [91; 93])
  = Ok [123; 34; 97; 92; 110; 34; 58; 91; 49; 44; 45; 50; 46; 53; 101; 43; 51; 44; 116; 114; 117; 101; 93; 125] None [91; 93] /\
  Json.valid [123; 34; 97; 92; 110; 34; 58; 91; 49; 44; 45; 50; 46; 53; 101; 43; 51; 44; 116; 114; 117; 101; 93; 125] = true /\
  (* a bare number followed by a bracket: the record is the number *)
  recv None [49; 50; 91] = Ok [49; 50] None [91].
Proof. vm_compute. auto. Qed.

(* ------------------------------------------------------------------------------------------- *)
(* Part 5: the converse - every value of the independent grammar is delimited by the scanner at
   the same place; hence json_record (the record class of C11) is exactly: a text that the grammar
   of Json.v accepts as one value without surrounding white space and that starts with an opening
   brace, bracket or quote. *)

(* strings *)
Lemma pstr_scan_len : forall m s b r,
  (length s <= m)%nat -> Json.pstr s = Some (b, r) -> scan_str SPlain s = Done r.
Proof.
  induction m as [|m IH]; intros s b r Hl H.
  - destruct s; [discriminate | cbn in Hl; lia].
  - destruct s as [|c s1]; [discriminate|]. cbn [Json.pstr] in H. unfold Json.sclass_of in H. cbn [scan_str].
    destruct (c =? 34) eqn:E34; [now inversion H|].
    destruct (c =? 92) eqn:E92.
    { destruct s1 as [|e s2]; [discriminate|]. cbn [scan_str].
      unfold Json.eclass_of in H.
      change ((e =? 98) || (e =? 102) || (e =? 110) || (e =? 114) || (e =? 116) || (e =? 92) || (e =? 47) || (e =? 34))
        with (is_esc1 e) in H.
      destruct (is_esc1 e) eqn:Ee.
      - destruct (Json.pstr s2) as [[b' r']|] eqn:Ep; [|discriminate]. inversion H; subst.
        apply (IH s2 b'); [cbn in Hl; lia | exact Ep].
      - destruct (e =? 117) eqn:Eu; [|discriminate].
        destruct s2 as [|h1 [|h2 [|h3 [|h4 s6]]]]; try discriminate.
        rewrite (is_hex_same h1), (is_hex_same h2), (is_hex_same h3), (is_hex_same h4) in H.
        cbn [scan_str].
        destruct (is_hex h1); [|discriminate]. destruct (is_hex h2); [|discriminate].
        destruct (is_hex h3); [|discriminate]. destruct (is_hex h4); [|discriminate]. cbn [andb] in H.
        destruct (Json.pstr s6) as [[b' r']|] eqn:Ep; [|discriminate]. inversion H; subst.
        apply (IH s6 b'); [cbn in Hl; lia | exact Ep]. }
    destruct (c <? 32) eqn:Ec; [discriminate|].
    destruct (Json.pstr s1) as [[b' r']|] eqn:Ep; [|discriminate]. inversion H; subst.
    apply (IH s1 b'); [cbn in Hl; lia | exact Ep].
Qed.

Lemma pstr_scan s b r : Json.pstr s = Some (b, r) -> scan_str SPlain s = Done r.
Proof. apply (pstr_scan_len (length s)). lia. Qed.

(* numbers *)
Definition head_nondigit (s : bytes) : Prop := match s with c :: _ => is_digit c = false | [] => True end.

Lemma digits_spec : forall s ds r, Json.digits s = (ds, r) ->
  head_nondigit r /\
  scan_num NInt s = scan_num NInt r /\ scan_num NFrac s = scan_num NFrac r /\ scan_num NExpDig s = scan_num NExpDig r /\
  (ds = [] -> r = s) /\
  (ds <> [] -> exists c x, s = c :: x /\ is_digit c = true /\ exists ds', Json.digits x = (ds', r)).
Proof.
  induction s as [|c s IH]; intros ds r H; cbn [Json.digits] in H.
  - inversion H; subst. repeat split; auto. congruence.
  - rewrite is_digit_same in H. destruct (is_digit c) eqn:Ed.
    + destruct (Json.digits s) as [d r'] eqn:E. inversion H; subst ds r'.
      destruct (IH d r eq_refl) as [H1 [H2 [H3 [H4 _]]]].
      split; [exact H1|]. cbn [scan_num]. rewrite Ed. repeat split; auto; [discriminate|].
      intros _. exists c, s. repeat split; auto. eauto.
    + inversion H; subst ds r. split; [exact Ed|]. repeat split; auto. congruence.
Qed.

Lemma expdig_done r : head_nondigit r -> scan_num NExpDig r = Done r.
Proof. destruct r as [|c r]; cbn; [reflexivity|]. now intros ->. Qed.

(* the exponent part, from a state that has just read the mantissa *)
Lemma exp_scan st s ep r :
  (forall c x, is_exp c = true -> scan_num st (c :: x) = scan_num NExp x) ->
  (forall c x, s = c :: x -> is_exp c = false -> scan_num st (c :: x) = Done (c :: x)) ->
  scan_num st [] = Done [] ->
  Json.p_exp s = Some (ep, r) -> scan_num st s = Done r.
Proof.
  intros Hexp Hstop Hnil H. destruct s as [|c s']; [cbn in H; inversion H; subst; exact Hnil|].
  cbn [Json.p_exp] in H. change ((c =? 101) || (c =? 69)) with (is_exp c) in H.
  destruct (is_exp c) eqn:Ee.
  - rewrite (Hexp c s' Ee).
    destruct s' as [|c1 x]; [cbn in H; discriminate|]. cbn [Json.p_esign] in H.
    change ((c1 =? 43) || (c1 =? 45)) with (is_sign c1) in H. cbn [scan_num].
    destruct (is_sign c1) eqn:Es.
    + destruct (Json.digits x) as [d r'] eqn:Ed. destruct d as [|d0 d']; [discriminate|].
      inversion H; subst r'.
      destruct (digits_spec _ _ _ Ed) as [Hh [_ [_ [_ [_ Hne]]]]].
      destruct (Hne ltac:(discriminate)) as [c2 [x2 [-> [Hc2 [ds' Hds']]]]].
      cbn [scan_num]. rewrite Hc2.
      destruct (digits_spec _ _ _ Hds') as [_ [_ [_ [-> _]]]]. now apply expdig_done.
    + destruct (Json.digits (c1 :: x)) as [d r'] eqn:Ed. destruct d as [|d0 d']; [discriminate|].
      inversion H; subst r'.
      destruct (digits_spec _ _ _ Ed) as [Hh [_ [_ [_ [_ Hne]]]]].
      destruct (Hne ltac:(discriminate)) as [c2 [x2 [E2 [Hc2 [ds' Hds']]]]]. inversion E2; subst c2 x2.
      rewrite Hc2. destruct (digits_spec _ _ _ Hds') as [_ [_ [_ [-> _]]]]. now apply expdig_done.
  - inversion H; subst. now apply Hstop.
Qed.

Lemma is_exp_cases c : is_exp c = true -> c = 101 \/ c = 69.
Proof. unfold is_exp. intros H. apply orb_true_iff in H. destruct H as [H|H]; apply N.eqb_eq in H; auto. Qed.

Lemma exp_scan_frac s ep r : head_nondigit s -> Json.p_exp s = Some (ep, r) -> scan_num NFrac s = Done r.
Proof.
  intros Hh. apply exp_scan; [| |reflexivity].
  - intros c x Hc. cbn [scan_num]. rewrite Hc. destruct (is_exp_cases c Hc) as [-> | ->]; reflexivity.
  - intros c x -> Hc. cbn [scan_num]. cbn in Hh. now rewrite Hh, Hc.
Qed.

(* fraction and exponent, from state0 (after a leading zero: the next byte may be a digit - it then
   starts the next value) and from state1 (after the digits of the integer part) *)
Lemma after_int_scan st s r :
  (st = NZero \/ (st = NInt /\ head_nondigit s)) -> after_int s r -> scan_num st s = Done r.
Proof.
  intros Hst [fp [s3 [ep [Hf He]]]].
  assert (Hnil : scan_num st [] = Done []) by (destruct Hst as [-> | [-> _]]; reflexivity).
  assert (Hdot : forall x, scan_num st (46 :: x) = scan_num NDot x) by (intros x; destruct Hst as [-> | [-> _]]; reflexivity).
  assert (Hexp : forall c x, is_exp c = true -> scan_num st (c :: x) = scan_num NExp x).
  { intros c x Hc. destruct (is_exp_cases c Hc) as [-> | ->]; destruct Hst as [-> | [-> _]]; reflexivity. }
  assert (Hstop : forall c x, s = c :: x -> (c =? 46) = false -> is_exp c = false -> scan_num st (c :: x) = Done (c :: x)).
  { intros c x -> H46 Hc. destruct Hst as [-> | [-> Hh]]; cbn [scan_num].
    - now rewrite H46, Hc.
    - cbn in Hh. now rewrite Hh, H46, Hc. }
  destruct s as [|c s']; [cbn in Hf; inversion Hf; subst; cbn in He; inversion He; subst; exact Hnil|].
  cbn [Json.p_frac] in Hf. destruct (c =? 46) eqn:E46.
  - apply N.eqb_eq in E46. subst c. rewrite Hdot.
    destruct (Json.digits s') as [d r'] eqn:Ed. destruct d as [|d0 d']; [discriminate|]. inversion Hf; subst fp s3.
    destruct (digits_spec _ _ _ Ed) as [Hh [_ [_ [_ [_ Hne]]]]].
    destruct (Hne ltac:(discriminate)) as [c1 [x1 [-> [Hc1 [ds' Hds']]]]].
    cbn [scan_num]. rewrite Hc1.
    destruct (digits_spec _ _ _ Hds') as [_ [_ [-> _]]]. now apply (exp_scan_frac r' ep).
  - inversion Hf; subst fp s3. apply (exp_scan st (c :: s') ep r); auto.
    intros c0 x E Hc. inversion E; subst c0 x. now apply Hstop.
Qed.

Lemma pnum_scan c s n r : Json.pnum (c :: s) = Some (n, r) ->
  (c = 45 /\ scan_num NNeg s = Done r) \/ (c = 48 /\ scan_num NZero s = Done r) \/
  (is_digit19 c = true /\ scan_num NInt s = Done r).
Proof.
  unfold Json.pnum. intros H.
  assert (Int : forall x ip s2, Json.p_int x = Some (ip, s2) -> after_int s2 r ->
            exists c1 x1, x = c1 :: x1 /\
              ((c1 = 48 /\ scan_num NZero x1 = Done r) \/ (is_digit19 c1 = true /\ scan_num NInt x1 = Done r))).
  { intros x ip s2 Hi Ha. destruct x as [|c1 x1]; [discriminate|]. exists c1, x1. split; [reflexivity|].
    cbn [Json.p_int] in Hi. destruct (c1 =? 48) eqn:E48.
    - apply N.eqb_eq in E48. inversion Hi; subst. left. split; [reflexivity|]. apply after_int_scan; [now left | exact Ha].
    - rewrite is_digit_same in Hi. destruct (is_digit c1) eqn:Ed; [|discriminate].
      destruct (Json.digits x1) as [d r'] eqn:Edd. inversion Hi; subst ip s2.
      destruct (digits_spec _ _ _ Edd) as [Hh [-> _]]. right. split.
      + unfold is_digit19. unfold is_digit in Ed. apply andb_true_iff in Ed. destruct Ed as [E1 E2].
        apply N.leb_le in E1. apply N.eqb_neq in E48. apply andb_true_iff. split; [apply N.leb_le; lia | exact E2].
      + apply after_int_scan; [right; auto | exact Ha]. }
  cbn [Json.p_sign] in H. destruct (c =? 45) eqn:E45.
  - apply N.eqb_eq in E45. subst c.
    destruct (Json.p_int s) as [[ip s2]|] eqn:Ei; [|discriminate].
    destruct (Json.p_frac s2) as [[fp s3]|] eqn:Ef; [|discriminate].
    destruct (Json.p_exp s3) as [[ep s4]|] eqn:Ee; [|discriminate]. inversion H; subst s4.
    destruct (Int s ip s2 Ei) as [c1 [x1 [-> Hc]]]; [exists fp, s3, ep; auto|].
    left. split; [reflexivity|]. cbn [scan_num].
    destruct Hc as [[-> Hc]|[H19 Hc]]; [exact Hc|].
    destruct (digit19_props c1 H19) as [_ [H48 _]]. now rewrite H48, H19.
  - destruct (Json.p_int (c :: s)) as [[ip s2]|] eqn:Ei; [|discriminate].
    destruct (Json.p_frac s2) as [[fp s3]|] eqn:Ef; [|discriminate].
    destruct (Json.p_exp s3) as [[ep s4]|] eqn:Ee; [|discriminate]. inversion H; subst s4.
    destruct (Int (c :: s) ip s2 Ei) as [c1 [x1 [E Hc]]]; [exists fp, s3, ep; auto|].
    inversion E; subst c1 x1. right. destruct Hc as [Hc|Hc]; [left | right]; exact Hc.
Qed.

(* scalars: literals and numbers, as scan_value reads them *)
Lemma pscalar_scan f d c0 s c r :
  Json.tok_of c0 = Json.TOther -> is_ws c0 = false ->
  Json.pscalar (c0 :: s) = Some (c, r) -> scan_value (S f) d (c0 :: s) = Done r.
Proof.
  intros Htok Hws H. rewrite scan_value_S, (skip_ws_nows c0 s Hws). unfold Json.pscalar in H.
  destruct (Json.strip_prefix Json.lit_true (c0 :: s)) as [r1|] eqn:E1.
  { inversion H; subst. apply JsonProofs.strip_prefix_sound in E1. inversion E1; subst. exact (scan_lit_app lit_rue r). }
  destruct (Json.strip_prefix Json.lit_false (c0 :: s)) as [r2|] eqn:E2.
  { inversion H; subst. apply JsonProofs.strip_prefix_sound in E2. inversion E2; subst. exact (scan_lit_app lit_alse r). }
  destruct (Json.strip_prefix Json.lit_null (c0 :: s)) as [r3|] eqn:E3.
  { inversion H; subst. apply JsonProofs.strip_prefix_sound in E3. inversion E3; subst. exact (scan_lit_app lit_ull r). }
  destruct (Json.pnum (c0 :: s)) as [[n r4]|] eqn:E4; [|discriminate]. inversion H; subst.
  destruct (pnum_scan _ _ _ _ E4) as [[-> Hn]|[[-> Hn]|[H19 Hn]]]; [exact Hn | exact Hn|].
  destruct (digit19_props c0 H19) as [_ [H48 [H45 Hr]]].
  assert (H34 : (c0 =? 34) = false) by (apply N.eqb_neq; lia).
  assert (H123 : (c0 =? 123) = false) by (apply N.eqb_neq; lia).
  assert (H91 : (c0 =? 91) = false) by (apply N.eqb_neq; lia).
  now rewrite H34, H123, H91, H45, H48, H19.
Qed.

Lemma tok_is c t : Json.tok_of c = t ->
  match t with
  | Json.TQuote => c = 34 | Json.TLBrack => c = 91 | Json.TRBrack => c = 93 | Json.TLBrace => c = 123
  | Json.TRBrace => c = 125 | Json.TComma => c = 44 | Json.TColon => c = 58 | _ => True
  end.
Proof.
  intros H. assert (Ht : Json.tk (c :: []) = (t, [])) by (cbn [Json.tk]; now rewrite H).
  pose proof (JsonPrint.tk_inv _ _ _ Ht) as Hi. destruct t; try exact I; now inversion Hi.
Qed.

Lemma skip_ws_idem s : skip_ws (skip_ws s) = skip_ws s.
Proof.
  induction s as [|c s IH]; [reflexivity|]. cbn [skip_ws]. destruct (is_ws c) eqn:E; [exact IH|].
  cbn [skip_ws]. now rewrite E.
Qed.

Lemma scan_value_skip f d s : scan_value f d (skip_ws s) = scan_value f d s.
Proof. destruct f as [|f]; [reflexivity|]. rewrite !scan_value_S. now rewrite skip_ws_idem. Qed.

Lemma scan_elems_skip f d s : scan_elems f d (skip_ws s) = scan_elems f d s.
Proof. destruct f as [|f]; [reflexivity|]. rewrite !scan_elems_S. now rewrite scan_value_skip. Qed.

Lemma scan_members_skip f d s : scan_members f d (skip_ws s) = scan_members f d s.
Proof. destruct f as [|f]; [reflexivity|]. rewrite !scan_members_S. now rewrite skip_ws_idem. Qed.

Lemma ps_all : forall g,
  (forall d s c r, Json.pval g d s = Some (c, r) ->
     forall f, scan_value f d s <> NoFuel -> scan_value f d s = Done r) /\
  (forall d w s es r, Json.pelems g d w s = Some (es, r) ->
     forall f, scan_elems f d s <> NoFuel -> scan_elems f d s = Done r) /\
  (forall d w s ms r, Json.pmems g d w s = Some (ms, r) ->
     forall f, scan_members f d s <> NoFuel -> scan_members f d s = Done r).
Proof.
  induction g as [|g [IHv [IHe IHm]]].
  - repeat split; intros; discriminate.
  - repeat split.
    + (* value *)
      intros d s c r H f Hf. destruct f as [|f]; [now elim Hf|].
      destruct (JsonPrint.pval_not_ws _ _ _ _ _ H) as [c0 [s' [-> Hws]]]. rewrite is_ws_same in Hws.
      cbn [Json.pval Json.tk] in H.
      destruct (Json.tok_of c0) eqn:Et; try discriminate.
      * (* string *)
        pose proof (tok_is _ _ Et) as Hc0. cbv iota in Hc0. subst c0.
        destruct (Json.pstr s') as [[b r']|] eqn:Ep; [|discriminate]. inversion H; subst.
        rewrite scan_value_S. cbn [skip_ws is_ws N.eqb Pos.eqb orb]. change (34 =? 34) with true. cbv iota.
        now apply (pstr_scan s' b).
      * (* array *)
        pose proof (tok_is _ _ Et) as Hc0. cbv iota in Hc0. subst c0.
        change Json.max_depth with max_depth in H.
        rewrite scan_value_S in *. rewrite (skip_ws_nows 91 s' Hws) in *.
        change (91 =? 34) with false in *. change (91 =? 123) with false in *. change (91 =? 91) with true in *. cbv iota in *.
        destruct (max_depth <=? d) eqn:Ed; [discriminate|].
        destruct (split_ws_skip s') as [w Hw]. rewrite Hw in H.
        destruct (skip_ws s') as [|c2 s2] eqn:E2.
        { cbn [Json.tk] in H. rewrite JsonPrint.pelems_nil in H. discriminate. }
        cbn [Json.tk] in H. destruct (N.eqb_spec c2 93) as [->|N93].
        { change (Json.tok_of 93) with Json.TRBrack in H. now inversion H. }
        assert (Hpe : exists es, Json.pelems g (N.succ d) w (c2 :: s2) = Some (es, r)).
        { destruct (Json.tok_of c2) eqn:Et2;
            try (destruct (Json.pelems g (N.succ d) w (c2 :: s2)) as [[es r3]|]; [inversion H; subst; eauto | discriminate]).
          exfalso. apply N93. now apply tok_rbrack. }
        destruct Hpe as [es Hpe]. rewrite <- N.add_1_r in Hpe. now apply (IHe _ _ _ _ _ Hpe).
      * (* object *)
        pose proof (tok_is _ _ Et) as Hc0. cbv iota in Hc0. subst c0.
        change Json.max_depth with max_depth in H.
        rewrite scan_value_S in *. rewrite (skip_ws_nows 123 s' Hws) in *.
        change (123 =? 34) with false in *. change (123 =? 123) with true in *. cbv iota in *.
        destruct (max_depth <=? d) eqn:Ed; [discriminate|].
        destruct (split_ws_skip s') as [w Hw]. rewrite Hw in H.
        destruct (skip_ws s') as [|c2 s2] eqn:E2.
        { cbn [Json.tk] in H. rewrite JsonPrint.pmems_nil in H. discriminate. }
        cbn [Json.tk] in H. destruct (N.eqb_spec c2 125) as [->|N125].
        { change (Json.tok_of 125) with Json.TRBrace in H. now inversion H. }
        assert (Hpm : exists ms, Json.pmems g (N.succ d) w (c2 :: s2) = Some (ms, r)).
        { destruct (Json.tok_of c2) eqn:Et2;
            try (destruct (Json.pmems g (N.succ d) w (c2 :: s2)) as [[ms r3]|]; [inversion H; subst; eauto | discriminate]).
          exfalso. apply N125. now apply tok_rbrace. }
        destruct Hpm as [ms Hpm]. rewrite <- N.add_1_r in Hpm. now apply (IHm _ _ _ _ _ Hpm).
      * (* scalar *)
        now apply (pscalar_scan f d c0 s' c r Et Hws).
    + (* elements *)
      intros d w s es r H f Hf. destruct f as [|f]; [now elim Hf|].
      cbn [Json.pelems] in H. rewrite scan_elems_S in *.
      destruct (Json.pval g d s) as [[c0 r1]|] eqn:Ev; [|discriminate].
      assert (Hv : scan_value f d s = Done r1).
      { apply (IHv _ _ _ _ Ev). intros E. rewrite E in Hf. now apply Hf. }
      rewrite Hv in *.
      destruct (split_ws_skip r1) as [wa Hwa]. rewrite Hwa in H.
      destruct (skip_ws r1) as [|c r'] eqn:Er; [cbn [Json.tk] in H; discriminate|].
      cbn [Json.tk] in H. destruct (Json.tok_of c) eqn:Et; try discriminate.
      * (* ] *) apply tok_rbrack in Et. subst c. inversion H; subst. reflexivity.
      * (* , *)
        pose proof (tok_is _ _ Et) as Hc. cbv iota in Hc. subst c.
        change (44 =? 44) with true in *. cbv iota in *.
        destruct (split_ws_skip r') as [wb Hwb]. rewrite Hwb in H.
        destruct (Json.pelems g d wb (skip_ws r')) as [[es' r5]|] eqn:Ee; [|discriminate]. inversion H; subst.
        rewrite <- scan_elems_skip in *. now apply (IHe _ _ _ _ _ Ee).
    + (* members *)
      intros d w s ms r H f Hf. destruct f as [|f]; [now elim Hf|].
      cbn [Json.pmems] in H. rewrite scan_members_S in *.
      destruct s as [|c s1]; [discriminate|]. cbn [Json.tk] in H.
      destruct (Json.tok_of c) eqn:Et; try discriminate.
      pose proof (tok_is _ _ Et) as Hc. cbv iota in Hc. subst c.
      change (skip_ws (34 :: s1)) with (34 :: s1) in *. change (34 =? 34) with true in *. cbv iota in *.
      destruct (Json.pstr s1) as [[k r1]|] eqn:Ep; [|discriminate].
      rewrite (pstr_scan _ _ _ Ep) in *.
      destruct (split_ws_skip r1) as [wc Hwc]. rewrite Hwc in H.
      destruct (skip_ws r1) as [|c2 r3] eqn:E2; [cbn [Json.tk] in H; discriminate|].
      cbn [Json.tk] in H. destruct (Json.tok_of c2) eqn:Et2; try discriminate.
      pose proof (tok_is _ _ Et2) as Hc2. cbv iota in Hc2. subst c2.
      change (58 =? 58) with true in *. cbv iota in *.
      destruct (split_ws_skip r3) as [wv Hwv]. rewrite Hwv in H.
      destruct (Json.pval g d (skip_ws r3)) as [[c0 r5]|] eqn:Ev; [|discriminate].
      assert (Hv : scan_value f d r3 = Done r5).
      { rewrite <- scan_value_skip. apply (IHv _ _ _ _ Ev). rewrite scan_value_skip.
        intros E. rewrite E in Hf. now apply Hf. }
      rewrite Hv in *.
      destruct (split_ws_skip r5) as [wa Hwa]. rewrite Hwa in H.
      destruct (skip_ws r5) as [|c3 r7] eqn:E5; [cbn [Json.tk] in H; discriminate|].
      cbn [Json.tk] in H. destruct (Json.tok_of c3) eqn:Et3; try discriminate.
      * (* } *) pose proof (tok_is _ _ Et3) as Hc3. cbv iota in Hc3. subst c3. inversion H; subst. reflexivity.
      * (* , *)
        pose proof (tok_is _ _ Et3) as Hc3. cbv iota in Hc3. subst c3.
        change (44 =? 44) with true in *. cbv iota in *.
        destruct (split_ws_skip r7) as [wb Hwb]. rewrite Hwb in H.
        destruct (Json.pmems g d wb (skip_ws r7)) as [[ms' r9]|] eqn:Em; [|discriminate]. inversion H; subst.
        rewrite <- scan_members_skip in *. now apply (IHm _ _ _ _ _ Em).
Qed.

Theorem parser_value_scans : forall g d s c r,
  Json.pval g d s = Some (c, r) -> forall f, scan_value f d s <> NoFuel -> scan_value f d s = Done r.
Proof. intros g d s c r H. exact (proj1 (ps_all g) d s c r H). Qed.

(* a text that is exactly one value of the grammar (no surrounding white space) is scanned to its end *)
Theorem tight_scan : forall r, Json.tight_at 0 r = true -> scan r = Done [].
Proof.
  intros r H. destruct (JsonPrint.tight_PV _ _ H) as [c Hc].
  pose proof (JsonPrint.PV_value_at _ _ _ _ Hc) as Hv. unfold Json.value_at in Hv.
  unfold scan. apply (parser_value_scans _ _ _ _ _ Hv).
  pose proof (scan_fuel_ok r) as P. unfold scan in P. intros E. rewrite E in P. exact P.
Qed.

Definition starts_container_or_string (r : bytes) : Prop :=
  exists c t, r = c :: t /\ (c = 123 \/ c = 91 \/ c = 34).

(* json_record - the record class of the C11 round trip, defined with the scanner - is exactly:
   one value of the independent grammar, without surrounding white space, that is an object, an
   array or a string *)
Theorem json_record_iff : forall r,
  json_record r = true <-> starts_container_or_string r /\ Json.tight_at 0 r = true.
Proof.
  intros r. split.
  - intros H. destruct (json_record_head r H) as [c [t [-> [Hc Hk]]]]. split; [exists c, t; auto|].
    unfold json_record in H. apply andb_true_iff in H. destruct H as [_ H].
    destruct (scan (c :: t)) as [[|]| | |] eqn:E; try discriminate.
    destruct (scan_value_parses _ _ _ _ E) as [cst Hpv]. rewrite (skip_ws_nows c t Hc) in Hpv.
    exact (JsonPrint.PV_tight _ _ _ Hpv).
  - intros [[c [t [-> Hk]]] H]. unfold json_record. rewrite (tight_scan _ H).
    destruct Hk as [-> | [-> | ->]]; reflexivity.
Qed.

(* completeness against the independent grammar: every value of the grammar that is not a number
   (an object, array, string or literal), whatever follows it, is returned by Recv - null as the
   empty record *)
Theorem rawjson_complete : forall r rest,
  Json.tight_at 0 r = true -> nonnum r ->
  recv None (r ++ rest) = Ok (if is_null r then [] else r) None rest.
Proof.
  intros r rest H Hnn. pose proof (tight_scan r H) as Hs.
  assert (Hext : scan (r ++ rest) = Done rest).
  { unfold scan in *. apply (proj1 (ext_all _) 0 r [] Hs (or_intror Hnn) rest).
    unfold scan_fuel. rewrite app_length. lia. }
  destruct (JsonPrint.tight_PV _ _ H) as [c Hc].
  pose proof (JsonPrint.PV_value_at _ _ _ _ Hc) as Hv. unfold Json.value_at in Hv.
  destruct (JsonPrint.pval_not_ws _ _ _ _ _ Hv) as [x [t [-> Hx]]]. rewrite is_ws_same in Hx.
  unfold recv. cbn [app skip_ws]. rewrite Hx. cbn [app] in Hext. rewrite Hext.
  change (x :: t ++ rest) with ((x :: t) ++ rest). now rewrite span_before_app.
Qed.

Example rawjson_complete_nonvacuous :
  Json.tight_at 0 [91; 49; 44; 32; 123; 125; 93] = true /\ nonnum [91; 49; 44; 32; 123; 125; 93] /\
  Json.tight_at 0 [110; 117; 108; 108] = true /\ nonnum [110; 117; 108; 108] /\
  recv None ([110; 117; 108; 108] ++ [123]) = Ok [] None [123].
Proof. vm_compute. auto. Qed.

Example json_record_iff_nonvacuous :
  json_record [123; 34; 97; 34; 58; 91; 93; 125] = true /\ Json.tight_at 0 [123; 34; 97; 34; 58; 91; 93; 125] = true /\
  Json.tight_at 0 [49; 50] = true /\ json_record [49; 50] = false /\
  Json.tight_at 0 [123; 125; 32] = false /\ json_record [123; 125; 32] = false.
Proof. vm_compute. repeat split. Qed.
