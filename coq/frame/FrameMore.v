(* FrameMore: further C11/C12 facts about the stream framings, stated on the frozen models
   (Split.v, Hdr.v, RawJson.v): window independence and completeness of Split.recv, the
   remaining stream is a suffix of the input for EVERY outcome, the Content-Length
   requirement in explicit form, per-call (n-th call, for all n) robustness. *)
From Coq Require Import List NArith ZArith Bool Lia Arith.
From JV Require Import Bytes FrameBase FrameBaseProofs FrameSpec Split SplitProofs.
Import ListNotations.
Local Open Scope N_scope.

(* ---- Split: the bufio window size does not matter -------------------------------------- *)

(* the result of one Recv is the same for every window size k > 0 - in particular the model
   instantiated with the real window 4096 is the model with a window of one byte *)
Theorem split_window_indep : forall c b k s,
  0 < k -> recv_k c b k tt s = recv c b tt s.
Proof.
  intros c b k s Hk.
  destruct (recv_k_cases c b k Hk s) as [[r [rest [E [Hn ->]]]]|[Hn ->]].
  - subst s. unfold recv. symmetry. apply recv_k_found; auto using bufio_size_pos.
  - unfold recv. symmetry. apply recv_k_eof; auto using bufio_size_pos.
Qed.

Example split_window_indep_nonvacuous :
  recv_k cfg_fixed 10 1 tt [97; 98; 99; 10; 100] = Ok [97; 98; 99] tt [100] /\
  recv_k cfg_fixed 10 2 tt [97; 98; 99; 10; 100] = recv cfg_fixed 10 tt [97; 98; 99; 10; 100] /\
  recv_k cfg_fixed 10 3 tt [97; 98; 99] = OkWithErr [97; 98; 99] EEOF tt [].
Proof. vm_compute. auto. Qed.

(* completeness: EVERY frame of the reference grammar is returned, whatever follows it *)
Theorem split_complete : forall b r rest,
  ~ In b r -> recv cfg_fixed b tt (r ++ b :: rest) = Ok r tt rest.
Proof. intros b r rest Hn. unfold recv. apply recv_k_found; auto using bufio_size_pos. Qed.

Example split_complete_nonvacuous :
  ~ In 10 [97; 98] /\ recv cfg_fixed 10 tt ([97; 98] ++ 10 :: [99; 10]) = Ok [97; 98] tt [99; 10].
Proof. split; [cbn; intuition discriminate | vm_compute; reflexivity]. Qed.

(* ---- the remaining stream is a suffix of the input, for EVERY outcome ------------------------ *)

Definition suffix (r s : bytes) : Prop := exists p, s = p ++ r.

Lemma suffix_refl s : suffix s s.
Proof. exists []. reflexivity. Qed.
Lemma suffix_nil s : suffix [] s.
Proof. exists s. now rewrite app_nil_r. Qed.
Lemma suffix_app p s : suffix s (p ++ s).
Proof. exists p. reflexivity. Qed.
Lemma suffix_trans a b c : suffix a b -> suffix b c -> suffix a c.
Proof. intros [p ->] [q ->]. exists (q ++ p). now rewrite app_assoc. Qed.

(* what a Recv leaves in the stream (nothing observable after a crash) *)
Definition rest_of {St} (x : result St) : option bytes :=
  match x with
  | Ok _ _ rest | OkWithErr _ _ _ rest | Err _ _ rest => Some rest
  | _ => None
  end.

(* Split: whatever the outcome (record, record with error, bare error), with either defect switch
   and any window, what is left is a suffix of what was there: nothing fabricated or reordered *)
Theorem split_rest_is_suffix : forall c b k s rest,
  0 < k -> rest_of (recv_k c b k tt s) = Some rest -> suffix rest s.
Proof.
  intros c b k s rest Hk H.
  destruct (recv_k_cases c b k Hk s) as [[r [rest' [E [Hn Hr]]]]|[Hn Hr]]; rewrite Hr in H.
  - inversion H; subst. replace (r ++ b :: rest) with ((r ++ [b]) ++ rest) by (now rewrite <- app_assoc).
    apply suffix_app.
  - unfold eof_outcome in H. destruct s; inversion H; apply suffix_nil.
Qed.

Example split_rest_is_suffix_nonvacuous :
  rest_of (recv_k cfg_fixed 10 2 tt [97; 98; 99; 10; 100]) = Some [100] /\
  rest_of (recv_k cfg_fixed 10 2 tt [97; 98; 99]) = Some [] /\
  rest_of (recv_k cfg_fixed 10 2 tt []) = Some [].
Proof. vm_compute. auto. Qed.

(* ---- the n-th call, for every n ------------------------------------------------------------ *)

(* the result of call number n+1 on a channel in state st reading s; after a crash there is no
   later call: the crash is the result *)
Fixpoint call_n {St} (recv : St -> bytes -> result St) (n : nat) (st : St) (s : bytes) : result St :=
  match n with
  | O => recv st s
  | S n' =>
      match recv st s with
      | Ok _ st' rest | OkWithErr _ _ st' rest | Err _ st' rest => call_n recv n' st' rest
      | x => x
      end
  end.

Section EveryCall.
  Context {St : Type}.
  Variable recv : St -> bytes -> result St.
  Variable Inv : St -> Prop.

  Definition call_ok (x : result St) : Prop :=
    match x with
    | Ok _ st' _ | OkWithErr _ _ st' _ | Err _ st' _ => Inv st'
    | Crash _ | OutOfFuel => False
    end.

  Hypothesis Hp : progress_ok recv Inv.

  (* no call, however late, crashes or runs out of fuel, and the state invariant holds after it *)
  Lemma every_call_ok : forall n st s, Inv st -> call_ok (call_n recv n st s).
  Proof.
    induction n as [|n IH]; intros st s Hi; cbn [call_n]; pose proof (Hp st s Hi) as P;
      destruct (recv st s) as [r st' rest|r e st' rest|e st' rest|cr|]; try contradiction;
      destruct P as [Hi' _]; cbn [call_ok]; auto.
  Qed.

  (* framings whose errors consume input (Split, header framings): a call on a non-empty stream
     consumes at least one byte, a call on the empty stream returns io.EOF and changes nothing *)
  Hypothesis Hc : forall st s, Inv st ->
    match recv st s with
    | Ok _ st' rest | OkWithErr _ _ st' rest | Err _ st' rest =>
        (length rest < length s)%nat \/ (s = [] /\ recv st s = Err EEOF st [])
    | _ => True
    end.

  (* once the stream is exhausted Recv keeps failing: from call |s|+1 on, EVERY call returns
     io.EOF with nothing left *)
  Lemma eventually_eof : forall n st s, Inv st -> (length s <= n)%nat ->
    exists st', Inv st' /\ call_n recv n st s = Err EEOF st' [].
  Proof.
    induction n as [|n IH]; intros st s Hi Hl; cbn [call_n];
      pose proof (Hp st s Hi) as P; pose proof (Hc st s Hi) as C.
    - destruct s; [|cbn in Hl; lia].
      destruct (recv st []) as [r st' rest|r e st' rest|e st' rest|cr|]; try contradiction;
        destruct C as [C|[_ C]]; try (cbn in C; lia); try discriminate.
      inversion C; subst. exists st. auto.
    - destruct (recv st s) as [r st' rest|r e st' rest|e st' rest|cr|] eqn:E; try contradiction;
        destruct P as [Hi' _]; (destruct C as [C|[-> C]]; [apply IH; [exact Hi' | lia]|]); try discriminate.
      inversion C; subst. apply IH; [exact Hi | cbn; lia].
  Qed.
End EveryCall.

Theorem split_every_call : forall n b s,
  match call_n (recv cfg_fixed b) n tt s with Crash _ | OutOfFuel => False | _ => True end.
Proof.
  intros n b s. pose proof (every_call_ok (recv cfg_fixed b) (fun _ => True) (split_progress cfg_fixed b) n tt s I) as H.
  destruct (call_n (recv cfg_fixed b) n tt s); auto.
Qed.

Theorem split_eventually_eof : forall n b s,
  (length s <= n)%nat -> call_n (recv cfg_fixed b) n tt s = Err EEOF tt [].
Proof.
  intros n b s Hl.
  destruct (eventually_eof (recv cfg_fixed b) (fun _ => True) (split_progress cfg_fixed b)) with (n := n) (st := tt) (s := s)
    as [[] [_ E]]; auto.
  intros [] s0 _. destruct (recv_cases cfg_fixed b s0) as [[r [rest [-> [_ ->]]]]|[_ ->]].
  - left. rewrite app_length. cbn. lia.
  - unfold eof_outcome. destruct s0 as [|x s0]; [right; auto | left; cbn; lia].
Qed.

Example split_every_call_nonvacuous :
  (* abc LF de : record, partial record with io.EOF, then io.EOF for ever *)
  call_n (recv cfg_fixed 10) 0 tt [97; 98; 99; 10; 100; 101] = Ok [97; 98; 99] tt [100; 101] /\
  call_n (recv cfg_fixed 10) 1 tt [97; 98; 99; 10; 100; 101] = OkWithErr [100; 101] EEOF tt [] /\
  call_n (recv cfg_fixed 10) 2 tt [97; 98; 99; 10; 100; 101] = Err EEOF tt [] /\
  call_n (recv cfg_fixed 10) 7 tt [97; 98; 99; 10; 100; 101] = Err EEOF tt [].
Proof. vm_compute. auto. Qed.
