(* FrameMore: further C11/C12 facts about the stream framings, stated on the frozen models
   (Split.v, Hdr.v, RawJson.v): window independence and completeness of Split.recv, the
   remaining stream is a suffix of the input for EVERY outcome, the Content-Length
   requirement in explicit form, per-call (n-th call, for all n) robustness. *)
From Coq Require Import List NArith ZArith Bool Lia Arith.
From JV Require Import Bytes FrameBase FrameBaseProofs FrameSpec Split SplitProofs.
Import ListNotations.
Local Open Scope N_scope.

(* ---- Split: the bufio window size does not matter -------------------------------------- *)

(* the result of one Recv is the same for every window size k > 0 - in particular the model
   instantiated with the real window 4096 is the model with a window of one byte *)
Theorem split_window_indep : forall c b k s,
  0 < k -> recv_k c b k tt s = recv c b tt s.
Proof.
  intros c b k s Hk.
  destruct (recv_k_cases c b k Hk s) as [[r [rest [E [Hn ->]]]]|[Hn ->]].
  - subst s. unfold recv. symmetry. apply recv_k_found; auto using bufio_size_pos.
  - unfold recv. symmetry. apply recv_k_eof; auto using bufio_size_pos.
Qed.

Example split_window_indep_nonvacuous :
  recv_k cfg_fixed 10 1 tt [97; 98; 99; 10; 100] = Ok [97; 98; 99] tt [100] /\
  recv_k cfg_fixed 10 2 tt [97; 98; 99; 10; 100] = recv cfg_fixed 10 tt [97; 98; 99; 10; 100] /\
  recv_k cfg_fixed 10 3 tt [97; 98; 99] = OkWithErr [97; 98; 99] EEOF tt [].
Proof. vm_compute. auto. Qed.

(* completeness: EVERY frame of the reference grammar is returned, whatever follows it *)
Theorem split_complete : forall b r rest,
  ~ In b r -> recv cfg_fixed b tt (r ++ b :: rest) = Ok r tt rest.
Proof. intros b r rest Hn. unfold recv. apply recv_k_found; auto using bufio_size_pos. Qed.

Example split_complete_nonvacuous :
  ~ In 10 [97; 98] /\ recv cfg_fixed 10 tt ([97; 98] ++ 10 :: [99; 10]) = Ok [97; 98] tt [99; 10].
Proof. split; [cbn; intuition discriminate | vm_compute; reflexivity]. Qed.
