(* ChunkedHdr: the header framings (model Hdr.v, frozen) behind the chunked reader of Chunked.v.

   hdr.Recv uses three operations of the bufio.Reader:
   * ReadString('\n')  = collectFragments: ReadSlice repeated over ErrBufferFull, the pieces
     concatenated;
   * Read(p) (through io.ReadFull and through io.CopyN -> bytes.Buffer.ReadFrom ->
     io.LimitedReader.Read): bufio.go
       if b.r == b.w {
         if b.err != nil { return 0, b.readErr() }
         if len(p) >= len(b.buf) { n, b.err = b.rd.Read(p); return n, b.readErr() }   // direct
         b.r = 0; b.w = 0; n, b.err = b.rd.Read(b.buf); if n == 0 { return 0, b.readErr() }; b.w += n }
       n = copy(p, b.buf[b.r:b.w]); b.r += n; return n, nil
   * io.ReadFull(r, buf[:size]) = for n < size && err == nil { nn, err = r.Read(buf[n:]); n += nn },
     then nil if n >= size, ErrUnexpectedEOF if 0 < n < size and err == EOF;
     io.CopyN(&buf, r, size): the same loop with request sizes chosen by bytes.Buffer's growth
     policy (at least 1, at most what is still wanted), ending at size bytes or at io.EOF; then
     nil if size bytes were copied, io.EOF otherwise, which hdr.Recv turns into ErrUnexpectedEOF
     when n > 0.
   Both loops are [cread_n] with a request schedule [req got want] (clamped to 1..want): ReadFull
   asks for everything still wanted, CopyN for whatever the buffer policy says - the result is
   shown not to depend on it.

   Definitions only; proofs in ChunkedHdrProofs.v. *)
From Coq Require Import List NArith ZArith Bool Lia.
From JV Require Import Bytes FrameBase Hdr Chunked.
Import ListNotations.
Local Open Scope N_scope.

(* ReadString(delim): (data, reader after, found) *)
Fixpoint cread_string (fuel : nat) (eager : bool) (d k : N) (r : rdr) : option (bytes * rdr * bool) :=
  match fuel with
  | O => None
  | S f =>
      match cread_slice (slice_fuel r) eager d k r with
      | None => None
      | Some (a, r', RSFound) => Some (a, r', true)
      | Some (a, r', RSEOF) => Some (a, r', false)
      | Some (a, r', RSFull) =>
          match cread_string f eager d k r' with
          | Some (a', r'', fd) => Some (a ++ a', r'', fd)
          | None => None
          end
      end
  end.

(* Read(p) with len(p) = m > 0: (bytes, reader after, io.EOF returned with them) *)
Definition cread (eager : bool) (k : N) (m : nat) (r : rdr) : bytes * rdr * bool :=
  match rbuf r with
  | _ :: _ => (firstn m (rbuf r), {| rbuf := skipn m (rbuf r); rsrc := rsrc r; rerr := rerr r |}, false)
  | [] =>
      if rerr r then ([], {| rbuf := []; rsrc := rsrc r; rerr := false |}, true)
      else if (N.to_nat k <=? m)%nat then
        let '(a, src', e) := src_read eager m (rsrc r) in
        (a, {| rbuf := []; rsrc := src'; rerr := false |}, e)
      else
        let '(a, src', e) := src_read eager (N.to_nat k) (rsrc r) in
        match a with
        | [] => ([], {| rbuf := []; rsrc := src'; rerr := false |}, e)
        | _ => (firstn m a, {| rbuf := skipn m a; rsrc := src'; rerr := e |}, false)
        end
  end.

(* request schedules *)
Definition req_full (got want : nat) : nat := want.             (* io.ReadFull: buf[n:] *)

(* read [want] more bytes: (got ++ data, reader after, complete) *)
Fixpoint cread_n (fuel : nat) (eager : bool) (k : N) (req : nat -> nat -> nat)
    (want : nat) (got : bytes) (r : rdr) : option (bytes * rdr * bool) :=
  match fuel with
  | O => None
  | S f =>
      match want with
      | O => Some (got, r, true)
      | S _ =>
          let m := Nat.max 1 (Nat.min want (req (length got) want)) in
          let '(a, r', eof) := cread eager k m r in
          if eof then Some (got ++ a, r', (want - length a =? 0)%nat)
          else cread_n f eager k req (want - length a) (got ++ a) r'
      end
  end.

(* every Read that does not report io.EOF delivers at least one byte *)
Definition read_fuel (r : rdr) : nat := S (S (length (stream r))).

Inductive chdr_outcome :=
| CHDone (ct cl : bytes) (r : rdr)
| CHErr (e : errkind) (r : rdr)
| CHOutOfFuel.

(* the header loop of hdr.Recv (Hdr.hdr_loop, in the form of HdrProofs.hdr_loop_S), ReadString on
   the chunked reader *)
Fixpoint chdr_loop (fuel : nat) (eager : bool) (k : N) (ct cl : bytes) (r : rdr) : chdr_outcome :=
  match fuel with
  | O => CHOutOfFuel
  | S f =>
      match cread_string (S (length (stream r))) eager 10 k r with
      | None => CHOutOfFuel
      | Some (raw, r', found) =>
          if negb found && is_nil raw then CHErr EEOF r'
          else if is_nil (trim_right_crlf raw) then CHDone ct cl r'
          else match split_colon (trim_right_crlf raw) with
               | Some (name, value) =>
                   if beq (ascii_lower name) s_content_type then chdr_loop f eager k (trim_space value) cl r'
                   else if beq (ascii_lower name) s_content_length then chdr_loop f eager k ct (trim_space value) r'
                   else chdr_loop f eager k ct cl r'
               | None => CHErr EInvalidHeader r'
               end
      end
  end.

Definition cfinish_read (x : option (bytes * rdr * bool)) (cerr : option errkind) (st : N) : result (N * rdr) :=
  match x with
  | None => OutOfFuel
  | Some (data, r', true) =>
      match cerr with
      | None => Ok data (st, r') (stream r')
      | Some e => OkWithErr data e (st, r') (stream r')
      end
  | Some ([], r', false) => Err EEOF (st, r') (stream r')
  | Some (_, r', false) => Err EUnexpectedEOF (st, r') (stream r')
  end.

(* Hdr.recv_body with io.CopyN / io.ReadFull on the chunked reader; [req] is the request schedule
   of the CopyN path *)
Definition crecv_body (c : cfg) (eager : bool) (k : N) (req : nat -> nat -> nat)
    (want ct cl : bytes) (st : N) (r : rdr) : result (N * rdr) :=
  let cerr := if beq ct want then None else Some (EContentTypeMismatch ct) in
  match cl with
  | [] => Err EMissingLength (st, r) (stream r)
  | _ =>
      match atoi cl with
      | None => Err EInvalidLength (st, r) (stream r)
      | Some z =>
          if (z <? 0)%Z then Err EInvalidLength (st, r) (stream r)
          else
            let size := Z.to_N z in
            if fix_F5 c && (max_prealloc <? size) && (st <? size) then
              cfinish_read (cread_n (read_fuel r) eager k req (N.to_nat size) [] r) cerr st
            else
              let realloc := (st <? size) || ((shrink_above <? st) && (size <? st / 4)) in
              match (if realloc then make_slice (wrap64 (z * 2)) else Some st) with
              | None => Crash MakeSliceRange
              | Some st' =>
                  if st' <? size then Crash SliceBounds
                  else cfinish_read (cread_n (read_fuel r) eager k req_full (N.to_nat size) [] r) cerr st'
              end
      end
  end.

Definition crecv_strict (c : cfg) (eager : bool) (k : N) (req : nat -> nat -> nat)
    (want : bytes) (st : N) (r : rdr) : result (N * rdr) :=
  match chdr_loop (S (length (stream r))) eager k [] [] r with
  | CHOutOfFuel => OutOfFuel
  | CHErr e r' => Err e (st, r') (stream r')
  | CHDone ct cl r' => crecv_body c eager k req want ct cl st r'
  end.

Definition chdr_recv_k (c : cfg) (eager : bool) (k : N) (req : nat -> nat -> nat) (p : policy)
    (want : bytes) (st : N * rdr) (_ : bytes) : result (N * rdr) :=
  match p, crecv_strict c eager k req want (fst st) (snd st) with
  | Optional, OkWithErr x (EContentTypeMismatch []) st' rest => Ok x st' rest
  | _, x => x
  end.

Definition chdr_recv (c : cfg) (eager : bool) := chdr_recv_k c eager bufio_size.

Definition chdr_recv_all (c : cfg) (eager : bool) (req : nat -> nat -> nat) (p : policy) (want : bytes)
    (st : N) (chunks : list bytes) : list item :=
  recv_all_loop (chdr_recv c eager req p want) (S (S (length (concat chunks)))) None (st, rinit chunks) [].
