(* ChunkedProofs: Recv does not depend on how the transport fragments or coalesces the byte
   stream (model of the chunked reader: Chunked.v).

   Split:  forget (crecv_k c eager b k (tt, r) _) = Split.recv_k c b k tt (stream r)
           for every reader state r reachable from a list of non-empty chunks, both EOF
           behaviours of the transport, every buffer size k > 0; hence for the whole sequence
           of Recv calls  crecv_all c eager b chunks = Split.recv_all c b (concat chunks). *)
From Coq Require Import List NArith ZArith Bool Lia Arith.
From JV Require Import Bytes FrameBase FrameBaseProofs FrameSpec Split SplitProofs Chunked.
Import ListNotations.
Local Open Scope N_scope.

Definition nonempty (c : bytes) : Prop := c <> [].

(* reader states: the buffer holds at most k bytes, the transport has no empty chunk, and a
   pending io.EOF means the transport is exhausted *)
Definition wf (k : N) (r : rdr) : Prop :=
  (length (rbuf r) <= N.to_nat k)%nat /\ Forall nonempty (rsrc r) /\ (rerr r = true -> rsrc r = []).

Lemma wf_rinit k chunks : Forall nonempty chunks -> wf k (rinit chunks).
Proof. intros H. repeat split; cbn; auto; [lia | discriminate]. Qed.

Lemma stream_rinit chunks : stream (rinit chunks) = concat chunks.
Proof. reflexivity. Qed.

(* ---- the transport and fill ------------------------------------------------------------ *)

Lemma src_read_spec eager space src a src' e :
  (0 < space)%nat -> Forall nonempty src -> src_read eager space src = (a, src', e) ->
  a ++ concat src' = concat src /\ (length a <= space)%nat /\ Forall nonempty src' /\
  (e = true -> src' = []) /\
  ((src = [] /\ a = [] /\ src' = [] /\ e = true) \/
   (a <> [] /\ (length (concat src') < length (concat src))%nat)).
Proof.
  intros Hsp Hne H. destruct src as [|c cs]; cbn [src_read] in H.
  - inversion H; subst. split; [reflexivity|]. split; [cbn; lia|]. split; [constructor|].
    split; [reflexivity|]. left. auto.
  - inversion Hne as [|? ? Hc Hcs]; subst.
    assert (Hfs : firstn space c ++ skipn space c = c) by apply firstn_skipn.
    assert (Hfl : (length (firstn space c) <= space)%nat) by apply firstn_le_length.
    assert (Hfn : firstn space c <> []).
    { destruct space as [|n]; [lia|]. destruct c as [|y c']; [now elim Hc|]. discriminate. }
    destruct (skipn space c) as [|x b'] eqn:Es.
    + inversion H; subst a src' e. rewrite app_nil_r in Hfs. rewrite Hfs.
      split; [reflexivity|]. split; [rewrite Hfs in Hfl; exact Hfl|]. split; [exact Hcs|]. split.
      * intros He. apply andb_true_iff in He. destruct He as [_ He]. now apply is_nil_true in He.
      * right. split; [rewrite Hfs in Hfn; exact Hfn|]. cbn [concat]. rewrite app_length.
        destruct c; [now elim Hc|]. cbn [length]. lia.
    + inversion H; subst a src' e. split.
      * cbn [concat]. rewrite app_assoc, Hfs. reflexivity.
      * split; [exact Hfl|]. split; [constructor; [discriminate | exact Hcs]|]. split; [discriminate|].
        right. split; [exact Hfn|]. cbn [concat]. rewrite !app_length.
        pose proof (f_equal (@length N) Hfs) as Hlen. rewrite app_length in Hlen.
        destruct (firstn space c); [congruence|]. cbn [length] in *. lia.
Qed.

Lemma fill_spec eager k r :
  wf k r -> rerr r = false -> (length (rbuf r) < N.to_nat k)%nat ->
  stream (fill eager k r) = stream r /\ wf k (fill eager k r) /\
  ((length (concat (rsrc (fill eager k r))) < length (concat (rsrc r)))%nat \/
   (rsrc r = [] /\ rerr (fill eager k r) = true /\ rsrc (fill eager k r) = [])).
Proof.
  intros [Hl [Hne Hp]] He Hlt. unfold fill.
  destruct (src_read eager (N.to_nat k - length (rbuf r)) (rsrc r)) as [[a src'] e] eqn:E.
  assert (Hsp : (0 < N.to_nat k - length (rbuf r))%nat) by lia.
  destruct (src_read_spec _ _ _ _ _ _ Hsp Hne E) as [H1 [H2 [H3 [H4 H5]]]].
  unfold stream. cbn [rbuf rsrc rerr]. split; [rewrite <- app_assoc, H1; reflexivity|].
  split.
  - repeat split; cbn [rbuf rsrc rerr]; auto. rewrite app_length. lia.
  - destruct H5 as [[H5 [_ [H6 H7]]]|[_ H5]]; [right; auto | left; exact H5].
Qed.

Lemma wf_drained k src : Forall nonempty src -> wf k {| rbuf := []; rsrc := src; rerr := false |}.
Proof. intros H. split; [cbn; lia|]. split; [exact H|]. cbn. discriminate. Qed.

(* ---- ReadSlice on the chunked reader --------------------------------------------------- *)

Definition measure (r : rdr) : nat := (length (concat (rsrc r)) + if rerr r then 0 else 1)%nat.

Lemma cread_slice_spec eager d k : 0 < k -> forall fuel r,
  wf k r -> (measure r < fuel)%nat ->
  exists a r' st,
    cread_slice fuel eager d k r = Some (a, r', st) /\
    stream r = a ++ stream r' /\ wf k r' /\
    match st with
    | RSFound => exists p, a = p ++ [d] /\ ~ In d p
    | RSFull => ~ In d a /\ a <> []
    | RSEOF => ~ In d a /\ stream r' = []
    end.
Proof.
  intros Hk. induction fuel as [|f IH]; intros r Hwf Hm; [lia|].
  cbn [cread_slice]. destruct (read_string d (rbuf r)) as [[a rest] found] eqn:E.
  destruct (read_string_spec _ _ _ _ _ E) as [Hb [Ht Hf]].
  pose proof Hwf as Hwf0. destruct Hwf as [Hl [Hne Hp]]. destruct found.
  - destruct (Ht eq_refl) as [p [Ha Hnp]].
    exists a, {| rbuf := rest; rsrc := rsrc r; rerr := rerr r |}, RSFound.
    split; [reflexivity|]. split; [unfold stream; cbn [rbuf rsrc]; rewrite Hb, app_assoc; reflexivity|].
    split; [|eauto]. repeat split; cbn [rbuf rsrc rerr]; auto. rewrite Hb, app_length in Hl. lia.
  - destruct (Hf eq_refl) as [Hr Hna]. subst rest. rewrite app_nil_r in Hb.
    destruct (rerr r) eqn:Ee.
    + exists a, {| rbuf := []; rsrc := rsrc r; rerr := false |}, RSEOF.
      split; [reflexivity|]. rewrite (Hp eq_refl). unfold stream. cbn [rbuf rsrc concat]. rewrite (Hp eq_refl), Hb.
      split; [reflexivity|]. split; [apply wf_drained; constructor|]. split; [exact Hna | reflexivity].
    + destruct (N.leb_spec k (N.of_nat (length a))) as [Hfull|Hroom].
      * exists a, {| rbuf := []; rsrc := rsrc r; rerr := false |}, RSFull.
        split; [reflexivity|]. unfold stream. cbn [rbuf rsrc]. rewrite Hb.
        split; [reflexivity|]. split.
        -- now apply wf_drained.
        -- split; [exact Hna|]. intros ->. cbn in Hfull. lia.
      * assert (Hlt : (length (rbuf r) < N.to_nat k)%nat) by (rewrite Hb; lia).
        destruct (fill_spec eager k r Hwf0 Ee Hlt) as [Hs [Hwf' Hdec]].
        destruct (IH (fill eager k r) Hwf') as [a' [r' [st [E' [Hs' [Hw' Hst]]]]]].
        { unfold measure in *. rewrite Ee in Hm. destruct Hdec as [Hdec|[H1 [H2 H3]]].
          - destruct (rerr (fill eager k r)); lia.
          - rewrite H2, H3. cbn. lia. }
        exists a', r', st. rewrite <- Hs. auto.
Qed.

Lemma measure_slice_fuel r : (measure r < slice_fuel r)%nat.
Proof. unfold measure, slice_fuel. destruct (rerr r); lia. Qed.

(* ---- Split.Recv on the chunked reader ---------------------------------------------------- *)

Lemma first_occurrence_unique (b : N) : forall p q rest rest',
  p ++ b :: rest = q ++ b :: rest' -> ~ In b p -> ~ In b q -> p = q /\ rest = rest'.
Proof.
  induction p as [|x p IH]; intros q rest rest' E Hp Hq.
  - destruct q as [|y q]; [now inversion E|]. cbn in E. inversion E; subst. exfalso. apply Hq. now left.
  - destruct q as [|y q]; cbn in E; inversion E; subst.
    + exfalso. apply Hp. now left.
    + destruct (IH q rest rest') as [-> ->]; auto.
      * intros Hx. apply Hp. now right.
      * intros Hx. apply Hq. now right.
Qed.

Lemma prefix_no_delim (b : N) : forall a p rest t,
  p ++ b :: rest = a ++ t -> ~ In b a -> exists p', p = a ++ p' /\ t = p' ++ b :: rest.
Proof.
  induction a as [|x a IH]; intros p rest t E Ha.
  - exists p. auto.
  - destruct p as [|y p]; cbn in E; inversion E; subst.
    + exfalso. apply Ha. now left.
    + destruct (IH p rest t) as [p' [-> ->]]; auto.
      * intros Hx. apply Ha. now right.
      * exists p'. auto.
Qed.

Section Window.
  Variable c : cfg.
  Variable eager : bool.
  Variable b k : N.
  Hypothesis Hk : 0 < k.

  Lemma crecv_loop_found : forall fuel r acc p rest,
    wf k r -> stream r = p ++ b :: rest -> ~ In b p -> (length p < fuel)%nat ->
    exists r', crecv_loop c fuel eager b k acc r = Ok (buf_bytes acc ++ p) (tt, r') rest /\
               wf k r' /\ stream r' = rest.
  Proof.
    induction fuel as [|f IH]; intros r acc p rest Hwf Hs Hn Hf; [lia|].
    cbn [crecv_loop].
    destruct (cread_slice_spec eager b k Hk (slice_fuel r) r Hwf (measure_slice_fuel r))
      as [a [r1 [st [E [Hs1 [Hw1 Hst]]]]]].
    rewrite E. rewrite Hs in Hs1. destruct st.
    - destruct Hst as [q [-> Hq]]. rewrite <- app_assoc in Hs1. cbn [app] in Hs1.
      destruct (first_occurrence_unique b p q rest (stream r1) Hs1 Hn Hq) as [-> ->].
      exists r1. rewrite buf_bytes_cons, app_assoc, removelast_last. auto.
    - destruct Hst as [Hna Hne].
      destruct (prefix_no_delim b a p rest (stream r1) Hs1 Hna) as [p' [-> Hs']].
      destruct (IH r1 (a :: acc) p' rest Hw1 Hs') as [r' [E' [Hw' Hs'']]].
      + intros Hx. apply Hn. apply in_or_app. now right.
      + rewrite app_length in Hf. destruct a; [congruence|]. cbn [length] in Hf. lia.
      + exists r'. rewrite E', buf_bytes_cons, <- app_assoc. auto.
    - destruct Hst as [Hna He]. rewrite He, app_nil_r in Hs1. exfalso. apply Hna. rewrite <- Hs1.
      apply in_or_app. right. now left.
  Qed.

  Definition ceof_outcome (line : bytes) (r' : rdr) : result (unit * rdr) :=
    match line with
    | [] => Err EEOF (tt, r') []
    | _ => OkWithErr (if fix_F6 c then line else removelast line) EEOF (tt, r') []
    end.

  Lemma crecv_loop_eof : forall fuel r acc,
    wf k r -> ~ In b (stream r) -> (length (stream r) < fuel)%nat ->
    exists r', crecv_loop c fuel eager b k acc r = ceof_outcome (buf_bytes acc ++ stream r) r' /\
               wf k r' /\ stream r' = [].
  Proof.
    induction fuel as [|f IH]; intros r acc Hwf Hn Hf; [lia|].
    cbn [crecv_loop].
    destruct (cread_slice_spec eager b k Hk (slice_fuel r) r Hwf (measure_slice_fuel r))
      as [a [r1 [st [E [Hs1 [Hw1 Hst]]]]]].
    rewrite E. destruct st.
    - destruct Hst as [q [-> Hq]]. exfalso. apply Hn. rewrite Hs1. apply in_or_app. left.
      apply in_or_app. right. now left.
    - destruct Hst as [Hna Hne].
      destruct (IH r1 (a :: acc) Hw1) as [r' [E' [Hw' Hs'']]].
      + intros Hx. apply Hn. rewrite Hs1. apply in_or_app. now right.
      + rewrite Hs1, app_length in Hf. destruct a; [congruence|]. cbn [length] in Hf. lia.
      + exists r'. rewrite E', buf_bytes_cons, <- app_assoc, <- Hs1. auto.
    - destruct Hst as [Hna He]. rewrite He, app_nil_r in Hs1. exists r1.
      rewrite Hs1, He, buf_bytes_cons. split; [|auto]. unfold ceof_outcome.
      destruct (fix_F6 c); destruct (buf_bytes acc ++ a); reflexivity.
  Qed.

  (* one Recv through the chunked reader = one Recv of the stream model on what the reader
     still delivers; the reader afterwards delivers exactly the model's remaining stream *)
  Theorem crecv_k_stream : forall r x,
    wf k r ->
    forget (crecv_k c eager b k (tt, r) x) = recv_k c b k tt (stream r) /\
    match crecv_k c eager b k (tt, r) x with
    | Ok _ st rest | OkWithErr _ _ st rest | Err _ st rest => wf k (snd st) /\ stream (snd st) = rest
    | _ => True
    end.
  Proof.
    intros r x Hwf. unfold crecv_k. cbn [snd].
    destruct (in_dec N.eq_dec b (stream r)) as [Hin|Hn].
    - destruct (first_occurrence b (stream r) Hin) as [p [rest [Hs Hp]]].
      destruct (crecv_loop_found (S (length (stream r))) r [] p rest Hwf Hs Hp) as [r' [E [Hw' Hs']]].
      { rewrite Hs, app_length. cbn. lia. }
      rewrite E. cbn [forget fst snd buf_bytes_nil]. rewrite Hs.
      rewrite (recv_k_found c b k Hk p rest Hp). auto.
    - destruct (crecv_loop_eof (S (length (stream r))) r [] Hwf Hn) as [r' [E [Hw' Hs']]]; [lia|].
      rewrite E. rewrite (recv_k_eof c b k Hk (stream r) Hn). cbn [buf_bytes_nil app].
      unfold ceof_outcome, eof_outcome. change (buf_bytes [] ++ stream r) with (stream r).
      destruct (stream r); cbn [forget fst snd]; auto.
  Qed.
End Window.

(* ---- the whole sequence of Recv calls ------------------------------------------------------ *)

Section AllCalls.
  Context {St : Type}.
  Variable crecv : St * rdr -> bytes -> result (St * rdr).
  Variable recv : St -> bytes -> result St.
  Variable k : N.
  Hypothesis Hone : forall st r x, wf k r ->
    forget (crecv (st, r) x) = recv st (stream r) /\
    match crecv (st, r) x with
    | Ok _ st' rest | OkWithErr _ _ st' rest | Err _ st' rest => wf k (snd st') /\ stream (snd st') = rest
    | _ => True
    end.

  Lemma recv_all_loop_chunked : forall fuel prev st r x,
    wf k r ->
    recv_all_loop crecv fuel prev (st, r) x = recv_all_loop recv fuel prev st (stream r).
  Proof.
    induction fuel as [|f IH]; intros prev st r x Hwf; [reflexivity|].
    cbn [recv_all_loop]. destruct (Hone st r x Hwf) as [H1 H2]. rewrite <- H1.
    destruct (crecv (st, r) x) as [a [st1 r1] rest|a e [st1 r1] rest|e [st1 r1] rest|cr|];
      cbn [forget fst snd] in *; try reflexivity; destruct H2 as [Hw <-].
    - f_equal. now apply IH.
    - destruct (same_as_prev prev (item_of_recerr a e)); [reflexivity|]. f_equal. now apply IH.
    - destruct (same_as_prev prev (IErr e)); [reflexivity|]. f_equal. now apply IH.
  Qed.
End AllCalls.

(* Split, the real window: one call, from any reachable reader state *)
Theorem split_chunked_recv_state : forall c eager b r x,
  wf bufio_size r ->
  forget (crecv c eager b (tt, r) x) = Split.recv c b tt (stream r) /\
  match crecv c eager b (tt, r) x with
  | Ok _ st rest | OkWithErr _ _ st rest | Err _ st rest => wf bufio_size (snd st) /\ stream (snd st) = rest
  | _ => True
  end.
Proof. intros c eager b r x Hwf. apply crecv_k_stream; auto using bufio_size_pos. Qed.

(* one Recv on a fresh channel: any list of non-empty chunks, either EOF behaviour *)
Theorem split_chunked_recv : forall c eager b chunks x,
  Forall nonempty chunks ->
  forget (crecv c eager b (tt, rinit chunks) x) = Split.recv c b tt (concat chunks).
Proof.
  intros c eager b chunks x H.
  exact (proj1 (split_chunked_recv_state c eager b (rinit chunks) x (wf_rinit _ _ H))).
Qed.

(* all Recv calls: the observation does not depend on the fragmentation *)
Theorem split_chunked_recv_all : forall c eager b chunks,
  Forall nonempty chunks ->
  crecv_all c eager b chunks = Split.recv_all c b (concat chunks).
Proof.
  intros c eager b chunks H. unfold crecv_all, Split.recv_all, recv_all_from.
  rewrite (recv_all_loop_chunked (crecv c eager b) (Split.recv c b) bufio_size).
  - reflexivity.
  - intros [] r x Hwf. now apply split_chunked_recv_state.
  - now apply wf_rinit.
Qed.

(* C11 for Split in full: whatever way the encoded stream is cut into reads *)
Theorem split_chunked_round_trip : forall eager b rs chunks,
  Forall (fun r => ~ In b r) rs -> Forall nonempty chunks ->
  concat chunks = SplitSpec.encode b rs ->
  crecv_all cfg_fixed eager b chunks = map IRec rs ++ [IErr EEOF].
Proof.
  intros eager b rs chunks Hrs Hc E. rewrite split_chunked_recv_all by assumption. rewrite E.
  exact (proj2 (split_round_trip cfg_fixed b rs Hrs)).
Qed.

(* non-vacuity: abc LF de LF cut as  a | bc LF d | e | LF ; 1-byte chunks; a 3-byte window that
   forces ErrBufferFull continuation; data delivered together with io.EOF *)
Example split_chunked_nonvacuous :
  Forall nonempty [[97]; [98; 99; 10; 100]; [101]; [10]] /\
  concat [[97]; [98; 99; 10; 100]; [101]; [10]] = SplitSpec.encode 10 [[97; 98; 99]; [100; 101]] /\
  crecv_all cfg_fixed false 10 [[97]; [98; 99; 10; 100]; [101]; [10]] = [IRec [97; 98; 99]; IRec [100; 101]; IErr EEOF] /\
  crecv_all cfg_fixed true 10 [[97]; [98]; [99]; [10]; [100]] = [IRec [97; 98; 99]; IRecErr [100] EEOF; IErr EEOF] /\
  forget (crecv_k cfg_fixed true 10 3 (tt, rinit [[97; 98]; [99; 100; 101; 102]; [103; 10; 104]]) [])
  = Ok [97; 98; 99; 100; 101; 102; 103] tt [104].
Proof.
  split; [repeat constructor; discriminate|]. vm_compute. auto.
Qed.
