(* JsonScanProofs: facts about the JSON scanner of JsonScan.v, for ALL inputs:
     fuel_all       fuel 2*|s|+1 never runs out, and a scanned value consumes at least one byte;
     ext_all        prefix extension: what the scanner accepted is accepted again, with the same
                    end, whatever is appended after it and with any larger fuel - provided the
                    value did not end because the input ended (a number at the very end);
     scan_self_delimiting   hence a complete object / array / string is self-delimiting. *)
From Coq Require Import List NArith Bool Lia Arith.
From JV Require Import Bytes JsonScan.
Import ListNotations.
Local Open Scope N_scope.

(* ---- unfolding ---------------------------------------------------------------- *)

Lemma scan_value_S f d s :
  scan_value (S f) d s =
  match skip_ws s with
  | [] => Trunc
  | c :: s' =>
      if c =? 34 then scan_str SPlain s'
      else if c =? 123 then
        if max_depth <=? d then Syntax
        else match skip_ws s' with
             | [] => Trunc
             | c2 :: s2 => if c2 =? 125 then Done s2 else scan_members f (d + 1) (c2 :: s2)
             end
      else if c =? 91 then
        if max_depth <=? d then Syntax
        else match skip_ws s' with
             | [] => Trunc
             | c2 :: s2 => if c2 =? 93 then Done s2 else scan_elems f (d + 1) (c2 :: s2)
             end
      else if c =? 45 then scan_num NNeg s'
      else if c =? 48 then scan_num NZero s'
      else if is_digit19 c then scan_num NInt s'
      else if c =? 116 then scan_lit lit_rue s'
      else if c =? 102 then scan_lit lit_alse s'
      else if c =? 110 then scan_lit lit_ull s'
      else Syntax
  end.
Proof. reflexivity. Qed.

Lemma scan_elems_S f d s :
  scan_elems (S f) d s =
  match scan_value f d s with
  | Done r => match skip_ws r with
              | [] => Trunc
              | c :: r' => if c =? 44 then scan_elems f d r'
                           else if c =? 93 then Done r' else Syntax
              end
  | o => o
  end.
Proof. reflexivity. Qed.

Lemma scan_members_S f d s :
  scan_members (S f) d s =
  match skip_ws s with
  | [] => Trunc
  | c :: s1 =>
      if c =? 34 then
        match scan_str SPlain s1 with
        | Done s2 =>
            match skip_ws s2 with
            | [] => Trunc
            | c2 :: s3 =>
                if c2 =? 58 then
                  match scan_value f d s3 with
                  | Done s4 => match skip_ws s4 with
                               | [] => Trunc
                               | c3 :: s5 => if c3 =? 44 then scan_members f d s5
                                             else if c3 =? 125 then Done s5 else Syntax
                               end
                  | o => o
                  end
                else Syntax
            end
        | o => o
        end
      else Syntax
  end.
Proof. reflexivity. Qed.

(* ---- the leaf scanners ---------------------------------------------------------- *)

Lemma skip_ws_len s : (length (skip_ws s) <= length s)%nat.
Proof. induction s as [|c s IH]; cbn; auto. destruct (is_ws c); cbn; lia. Qed.

Lemma skip_ws_app_cons s c s' rest : skip_ws s = c :: s' -> skip_ws (s ++ rest) = c :: s' ++ rest.
Proof.
  induction s as [|x s IH]; cbn; [discriminate|]. destruct (is_ws x); [exact IH|].
  intros H. inversion H; subst. reflexivity.
Qed.

Lemma skip_ws_head s c s' : skip_ws s = c :: s' -> is_ws c = false.
Proof.
  induction s as [|x s IH]; cbn; [discriminate|]. destruct (is_ws x) eqn:E; [exact IH|].
  intros H. inversion H; subst. exact E.
Qed.

(* [ok k s o]: the outcome is not NoFuel, and a Done leaves at most |s| - k bytes *)
Definition ok (k : nat) (s : bytes) (o : outcome) : Prop :=
  match o with NoFuel => False | Done r => (length r + k <= length s)%nat | _ => True end.

Lemma ok_mono k k' s s' o : ok k' s' o -> (length s' + k <= length s + k')%nat -> ok k s o.
Proof. unfold ok. destruct o; auto. lia. Qed.

Lemma scan_str_ok : forall s st, ok 1 s (scan_str st s).
Proof.
  induction s as [|c s IH]; intros st; cbn; auto.
  destruct st.
  - destruct (c =? 34); [cbn; lia|]. destruct (c =? 92); [eapply ok_mono; [apply IH|cbn; lia]|].
    destruct (c <? 32); [exact I|]. eapply ok_mono; [apply IH|cbn; lia].
  - destruct (is_esc1 c); [eapply ok_mono; [apply IH|cbn; lia]|].
    destruct (c =? 117); [eapply ok_mono; [apply IH|cbn; lia]|exact I].
  - destruct (is_hex c); [|exact I]. destruct k; (eapply ok_mono; [apply IH|cbn; lia]).
Qed.

Lemma scan_num_ok : forall s st, ok 0 s (scan_num st s).
Proof.
  induction s as [|c s IH]; intros st; cbn.
  - destruct st; cbn; auto.
  - destruct st;
      repeat match goal with |- context [if ?b then _ else _] => destruct b end;
      try exact I; try (cbn; lia); (eapply ok_mono; [apply IH|cbn; lia]).
Qed.

Lemma scan_lit_ok : forall l s, ok 0 s (scan_lit l s).
Proof.
  induction l as [|a l IH]; intros s; cbn; [lia|].
  destruct s as [|c s]; [exact I|]. destruct (c =? a); [|exact I].
  eapply ok_mono; [apply IH|cbn; lia].
Qed.

Lemma scan_str_ext : forall s st r rest, scan_str st s = Done r -> scan_str st (s ++ rest) = Done (r ++ rest).
Proof.
  induction s as [|c s IH]; intros st r rest H; cbn in *; [discriminate|].
  destruct st.
  - destruct (c =? 34); [inversion H; reflexivity|]. destruct (c =? 92); [now apply IH|].
    destruct (c <? 32); [discriminate|]. now apply IH.
  - destruct (is_esc1 c); [now apply IH|]. destruct (c =? 117); [now apply IH|discriminate].
  - destruct (is_hex c); [|discriminate]. destruct k; now apply IH.
Qed.

Lemma scan_lit_ext : forall l s r rest, scan_lit l s = Done r -> scan_lit l (s ++ rest) = Done (r ++ rest).
Proof.
  induction l as [|a l IH]; intros s r rest H; cbn in *; [inversion H; reflexivity|].
  destruct s as [|c s]; [discriminate|]. cbn. destruct (c =? a); [now apply IH|discriminate].
Qed.

(* a number that ended at a byte (not at the end of the input) ends there whatever follows *)
Lemma scan_num_ext : forall s st r rest,
  scan_num st s = Done r -> r <> [] -> scan_num st (s ++ rest) = Done (r ++ rest).
Proof.
  induction s as [|c s IH]; intros st r rest H Hne.
  - cbn in H. destruct st; try discriminate; inversion H; subst; congruence.
  - revert H. cbn [scan_num app].
    destruct st;
      repeat match goal with |- context [if ?b then _ else _] => destruct b end;
      intros H; try discriminate; try (now apply IH); inversion H; subst; reflexivity.
Qed.

(* ---- fuel and consumption --------------------------------------------------------- *)

Lemma fuel_all : forall f,
  (forall d s, (2 * length s + 1 <= f)%nat -> ok 1 s (scan_value f d s)) /\
  (forall d s, (2 * length s + 2 <= f)%nat -> ok 1 s (scan_elems f d s)) /\
  (forall d s, (2 * length s + 2 <= f)%nat -> ok 1 s (scan_members f d s)).
Proof.
  induction f as [|f [IHv [IHe IHm]]].
  - repeat split; intros; lia.
  - repeat split; intros d s Hf.
    + rewrite scan_value_S. pose proof (skip_ws_len s) as Hw.
      destruct (skip_ws s) as [|c s'] eqn:Ews; [exact I|]. cbn [length] in Hw.
      destruct (c =? 34); [eapply ok_mono; [apply scan_str_ok|lia]|].
      destruct (c =? 123).
      { destruct (max_depth <=? d); [exact I|]. pose proof (skip_ws_len s') as Hw2.
        destruct (skip_ws s') as [|c2 s2]; [exact I|]. cbn [length] in Hw2.
        destruct (c2 =? 125); [cbn; lia|].
        eapply ok_mono; [apply IHm; cbn [length]; lia | cbn [length]; lia]. }
      destruct (c =? 91).
      { destruct (max_depth <=? d); [exact I|]. pose proof (skip_ws_len s') as Hw2.
        destruct (skip_ws s') as [|c2 s2]; [exact I|]. cbn [length] in Hw2.
        destruct (c2 =? 93); [cbn; lia|].
        eapply ok_mono; [apply IHe; cbn [length]; lia | cbn [length]; lia]. }
      destruct (c =? 45); [eapply ok_mono; [apply scan_num_ok|lia]|].
      destruct (c =? 48); [eapply ok_mono; [apply scan_num_ok|lia]|].
      destruct (is_digit19 c); [eapply ok_mono; [apply scan_num_ok|lia]|].
      destruct (c =? 116); [eapply ok_mono; [apply scan_lit_ok|lia]|].
      destruct (c =? 102); [eapply ok_mono; [apply scan_lit_ok|lia]|].
      destruct (c =? 110); [eapply ok_mono; [apply scan_lit_ok|lia]|exact I].
    + rewrite scan_elems_S. assert (Hv : (2 * length s + 1 <= f)%nat) by lia.
      pose proof (IHv d s Hv) as Pv.
      destruct (scan_value f d s) as [r| | |]; try exact I; [|contradiction]. cbn in Pv.
      pose proof (skip_ws_len r) as Hw. destruct (skip_ws r) as [|c r']; [exact I|]. cbn [length] in Hw.
      destruct (c =? 44); [eapply ok_mono; [apply IHe; lia | lia]|].
      destruct (c =? 93); [cbn; lia | exact I].
    + rewrite scan_members_S. pose proof (skip_ws_len s) as Hw.
      destruct (skip_ws s) as [|c s1]; [exact I|]. cbn [length] in Hw.
      destruct (c =? 34); [|exact I].
      pose proof (scan_str_ok s1 SPlain) as Ps.
      destruct (scan_str SPlain s1) as [s2| | |]; try exact I; [|contradiction]. cbn in Ps.
      pose proof (skip_ws_len s2) as Hw2. destruct (skip_ws s2) as [|c2 s3]; [exact I|]. cbn [length] in Hw2.
      destruct (c2 =? 58); [|exact I].
      assert (Hv : (2 * length s3 + 1 <= f)%nat) by lia.
      pose proof (IHv d s3 Hv) as Pv.
      destruct (scan_value f d s3) as [s4| | |]; try exact I; [|contradiction]. cbn in Pv.
      pose proof (skip_ws_len s4) as Hw4. destruct (skip_ws s4) as [|c3 s5]; [exact I|]. cbn [length] in Hw4.
      destruct (c3 =? 44); [eapply ok_mono; [apply IHm; lia | lia]|].
      destruct (c3 =? 125); [cbn; lia | exact I].
Qed.

(* the scanner's own fuel suffices, and a value consumes at least one byte *)
Theorem scan_fuel_ok : forall s, ok 1 s (scan s).
Proof.
  intros s. unfold scan, scan_fuel. apply (proj1 (fuel_all _)). lia.
Qed.

(* ---- prefix extension ---------------------------------------------------------------- *)

Definition num_start (c : N) : bool := (c =? 45) || (c =? 48) || is_digit19 c.

(* the value at the front of s is not a number *)
Definition nonnum (s : bytes) : Prop :=
  match skip_ws s with c :: _ => num_start c = false | [] => False end.

Lemma ext_all : forall f,
  (forall d s r, scan_value f d s = Done r -> (r <> [] \/ nonnum s) ->
     forall rest f', (f <= f')%nat -> scan_value f' d (s ++ rest) = Done (r ++ rest)) /\
  (forall d s r, scan_elems f d s = Done r ->
     forall rest f', (f <= f')%nat -> scan_elems f' d (s ++ rest) = Done (r ++ rest)) /\
  (forall d s r, scan_members f d s = Done r ->
     forall rest f', (f <= f')%nat -> scan_members f' d (s ++ rest) = Done (r ++ rest)).
Proof.
  induction f as [|f [IHv [IHe IHm]]].
  - repeat split; intros; discriminate.
  - repeat split.
    + intros d s r H Hr rest f' Hf. destruct f' as [|f']; [lia|]. assert (Hf' : (f <= f')%nat) by lia.
      rewrite scan_value_S in *. destruct (skip_ws s) as [|c s'] eqn:Ews; [discriminate|].
      rewrite (skip_ws_app_cons _ _ _ rest Ews).
      assert (Hnn : r <> [] \/ num_start c = false).
      { destruct Hr as [Hr|Hr]; [now left|right]. unfold nonnum in Hr. now rewrite Ews in Hr. }
      unfold num_start in Hnn.
      destruct (c =? 34); [now apply scan_str_ext|].
      destruct (c =? 123).
      { destruct (max_depth <=? d); [discriminate|].
        destruct (skip_ws s') as [|c2 s2] eqn:E2; [discriminate|].
        rewrite (skip_ws_app_cons _ _ _ rest E2).
        destruct (c2 =? 125); [inversion H; reflexivity|].
        change (c2 :: s2 ++ rest) with ((c2 :: s2) ++ rest). now apply IHm with (f' := f'). }
      destruct (c =? 91).
      { destruct (max_depth <=? d); [discriminate|].
        destruct (skip_ws s') as [|c2 s2] eqn:E2; [discriminate|].
        rewrite (skip_ws_app_cons _ _ _ rest E2).
        destruct (c2 =? 93); [inversion H; reflexivity|].
        change (c2 :: s2 ++ rest) with ((c2 :: s2) ++ rest). now apply IHe with (f' := f'). }
      destruct (c =? 45); [destruct Hnn as [Hn|Hn]; [now apply scan_num_ext | discriminate]|].
      destruct (c =? 48); [destruct Hnn as [Hn|Hn]; [now apply scan_num_ext | discriminate]|].
      destruct (is_digit19 c); [destruct Hnn as [Hn|Hn]; [now apply scan_num_ext | discriminate]|].
      destruct (c =? 116); [now apply scan_lit_ext|].
      destruct (c =? 102); [now apply scan_lit_ext|].
      destruct (c =? 110); [now apply scan_lit_ext|discriminate].
    + intros d s r0 H rest f' Hf. destruct f' as [|f']; [lia|]. assert (Hf' : (f <= f')%nat) by lia.
      rewrite scan_elems_S in *.
      destruct (scan_value f d s) as [r| | |] eqn:Ev; try discriminate.
      destruct (skip_ws r) as [|c r'] eqn:Er; [discriminate|].
      assert (Hne : r <> []) by (intros ->; discriminate).
      rewrite (IHv d s r Ev (or_introl Hne) rest f' Hf').
      rewrite (skip_ws_app_cons _ _ _ rest Er).
      destruct (c =? 44); [now apply IHe with (f' := f')|].
      destruct (c =? 93); [inversion H; reflexivity|discriminate].
    + intros d s r0 H rest f' Hf. destruct f' as [|f']; [lia|]. assert (Hf' : (f <= f')%nat) by lia.
      rewrite scan_members_S in *.
      destruct (skip_ws s) as [|c s1] eqn:Ews; [discriminate|].
      rewrite (skip_ws_app_cons _ _ _ rest Ews).
      destruct (c =? 34); [|discriminate].
      destruct (scan_str SPlain s1) as [s2| | |] eqn:Es; try discriminate.
      rewrite (scan_str_ext _ _ _ rest Es).
      destruct (skip_ws s2) as [|c2 s3] eqn:E2; [discriminate|].
      rewrite (skip_ws_app_cons _ _ _ rest E2).
      destruct (c2 =? 58); [|discriminate].
      destruct (scan_value f d s3) as [s4| | |] eqn:Ev; try discriminate.
      destruct (skip_ws s4) as [|c3 s5] eqn:E4; [discriminate|].
      assert (Hne : s4 <> []) by (intros ->; discriminate).
      rewrite (IHv d s3 s4 Ev (or_introl Hne) rest f' Hf').
      rewrite (skip_ws_app_cons _ _ _ rest E4).
      destruct (c3 =? 44); [now apply IHm with (f' := f')|].
      destruct (c3 =? 125); [inversion H; reflexivity|discriminate].
Qed.

(* ---- JSON records: complete objects, arrays and strings ------------------------------- *)

(* a record of the RawJSON framing: a JSON object, array or string (Go scanner grammar) with no
   white space before or after it.  A boolean checker. *)
Definition json_record (r : bytes) : bool :=
  match r with
  | c :: _ => ((c =? 123) || (c =? 91) || (c =? 34)) &&
              match scan r with Done [] => true | _ => false end
  | [] => false
  end.

Theorem scan_self_delimiting : forall r rest,
  json_record r = true -> scan (r ++ rest) = Done rest.
Proof.
  intros r rest H. unfold json_record in H. destruct r as [|c t]; [discriminate|].
  apply andb_true_iff in H. destruct H as [Hc Hs].
  destruct (scan (c :: t)) as [r'| | |] eqn:E; try discriminate. destruct r'; [|discriminate].
  unfold scan in *.
  assert (Hws : is_ws c = false).
  { unfold is_ws. repeat (apply orb_true_iff in Hc; destruct Hc as [Hc|Hc]);
      apply N.eqb_eq in Hc; subst; reflexivity. }
  assert (Hnn : nonnum (c :: t)).
  { unfold nonnum. cbn [skip_ws]. rewrite Hws. unfold num_start, is_digit19.
    repeat (apply orb_true_iff in Hc; destruct Hc as [Hc|Hc]); apply N.eqb_eq in Hc; subst; reflexivity. }
  apply (proj1 (ext_all _) 0 (c :: t) [] E (or_intror Hnn) rest).
  unfold scan_fuel. rewrite app_length. lia.
Qed.

Lemma json_record_head r : json_record r = true ->
  exists c t, r = c :: t /\ is_ws c = false /\ (c = 123 \/ c = 91 \/ c = 34).
Proof.
  unfold json_record. destruct r as [|c t]; [discriminate|]. intros H.
  apply andb_true_iff in H. destruct H as [Hc _]. exists c, t. split; [reflexivity|].
  repeat (apply orb_true_iff in Hc; destruct Hc as [Hc|Hc]); apply N.eqb_eq in Hc; subst; auto.
Qed.

(* ---- what the scanner leaves is a suffix of its input -------------------------------------- *)

Definition suffix (r s : bytes) : Prop := exists p, s = p ++ r.

Lemma suffix_refl s : suffix s s.
Proof. exists []. reflexivity. Qed.
Lemma suffix_cons c r s : suffix r s -> suffix r (c :: s).
Proof. intros [p ->]. exists (c :: p). reflexivity. Qed.
Lemma suffix_trans a b c : suffix a b -> suffix b c -> suffix a c.
Proof. intros [p ->] [q ->]. exists (q ++ p). now rewrite app_assoc. Qed.
Lemma suffix_tail c s : suffix s (c :: s).
Proof. apply suffix_cons, suffix_refl. Qed.

Lemma skip_ws_suffix s : suffix (skip_ws s) s.
Proof.
  induction s as [|a s IH]; cbn; [apply suffix_refl|].
  destruct (is_ws a); [now apply suffix_cons | apply suffix_refl].
Qed.

Lemma skip_ws_suffix_eq s c s' : skip_ws s = c :: s' -> suffix (c :: s') s /\ suffix s' s.
Proof.
  intros E. pose proof (skip_ws_suffix s) as H. rewrite E in H. split; [exact H|].
  eapply suffix_trans; [apply suffix_tail | exact H].
Qed.

Lemma scan_str_suffix : forall s st r, scan_str st s = Done r -> suffix r s.
Proof.
  induction s as [|c s IH]; intros st r H; cbn in H; [discriminate|].
  destruct st.
  - destruct (c =? 34); [inversion H; apply suffix_tail|].
    destruct (c =? 92); [apply suffix_cons; eauto|]. destruct (c <? 32); [discriminate|apply suffix_cons; eauto].
  - destruct (is_esc1 c); [apply suffix_cons; eauto|]. destruct (c =? 117); [apply suffix_cons; eauto|discriminate].
  - destruct (is_hex c); [|discriminate]. destruct k; apply suffix_cons; eauto.
Qed.

Lemma scan_num_suffix : forall s st r, scan_num st s = Done r -> suffix r s.
Proof.
  induction s as [|c s IH]; intros st r H.
  - cbn in H. destruct st; try discriminate; inversion H; apply suffix_refl.
  - revert H. cbn [scan_num].
    destruct st;
      repeat match goal with |- context [if ?b then _ else _] => destruct b end;
      intros H; try discriminate; try (apply suffix_cons; eauto; fail); inversion H; apply suffix_refl.
Qed.

Lemma scan_lit_suffix : forall l s r, scan_lit l s = Done r -> suffix r s.
Proof.
  induction l as [|a l IH]; intros s r H; cbn in H; [inversion H; apply suffix_refl|].
  destruct s as [|c s]; [discriminate|]. destruct (c =? a); [apply suffix_cons; eauto|discriminate].
Qed.

Lemma suffix_all : forall f,
  (forall d s r, scan_value f d s = Done r -> suffix r s) /\
  (forall d s r, scan_elems f d s = Done r -> suffix r s) /\
  (forall d s r, scan_members f d s = Done r -> suffix r s).
Proof.
  induction f as [|f [IHv [IHe IHm]]].
  - repeat split; intros; discriminate.
  - repeat split.
    + intros d s r H. rewrite scan_value_S in H.
      destruct (skip_ws s) as [|c s'] eqn:Ews; [discriminate|].
      destruct (skip_ws_suffix_eq _ _ _ Ews) as [_ Hs'].
      assert (T : forall x, suffix x s' -> suffix x s) by (intros x Hx; eapply suffix_trans; eauto).
      destruct (c =? 34); [apply T; eapply scan_str_suffix; eauto|].
      destruct (c =? 123).
      { destruct (max_depth <=? d); [discriminate|].
        destruct (skip_ws s') as [|c2 s2] eqn:E2; [discriminate|].
        destruct (skip_ws_suffix_eq _ _ _ E2) as [Ha Hb].
        destruct (c2 =? 125); [inversion H; subst; now apply T|].
        apply T. eapply suffix_trans; [eapply IHm; eauto | exact Ha]. }
      destruct (c =? 91).
      { destruct (max_depth <=? d); [discriminate|].
        destruct (skip_ws s') as [|c2 s2] eqn:E2; [discriminate|].
        destruct (skip_ws_suffix_eq _ _ _ E2) as [Ha Hb].
        destruct (c2 =? 93); [inversion H; subst; now apply T|].
        apply T. eapply suffix_trans; [eapply IHe; eauto | exact Ha]. }
      destruct (c =? 45); [apply T; eapply scan_num_suffix; eauto|].
      destruct (c =? 48); [apply T; eapply scan_num_suffix; eauto|].
      destruct (is_digit19 c); [apply T; eapply scan_num_suffix; eauto|].
      destruct (c =? 116); [apply T; eapply scan_lit_suffix; eauto|].
      destruct (c =? 102); [apply T; eapply scan_lit_suffix; eauto|].
      destruct (c =? 110); [apply T; eapply scan_lit_suffix; eauto|discriminate].
    + intros d s r0 H. rewrite scan_elems_S in H.
      destruct (scan_value f d s) as [r| | |] eqn:Ev; try discriminate.
      pose proof (IHv _ _ _ Ev) as Hr.
      destruct (skip_ws r) as [|c r'] eqn:Er; [discriminate|].
      destruct (skip_ws_suffix_eq _ _ _ Er) as [_ Hb].
      destruct (c =? 44).
      { eapply suffix_trans; [eapply IHe; eauto|]. eapply suffix_trans; eauto. }
      destruct (c =? 93); [inversion H; subst; eapply suffix_trans; eauto|discriminate].
    + intros d s r0 H. rewrite scan_members_S in H.
      destruct (skip_ws s) as [|c s1] eqn:Ews; [discriminate|].
      destruct (skip_ws_suffix_eq _ _ _ Ews) as [_ H1].
      destruct (c =? 34); [|discriminate].
      destruct (scan_str SPlain s1) as [s2| | |] eqn:Es; try discriminate.
      pose proof (scan_str_suffix _ _ _ Es) as H2.
      destruct (skip_ws s2) as [|c2 s3] eqn:E2; [discriminate|].
      destruct (skip_ws_suffix_eq _ _ _ E2) as [_ H3].
      destruct (c2 =? 58); [|discriminate].
      destruct (scan_value f d s3) as [s4| | |] eqn:Ev; try discriminate.
      pose proof (IHv _ _ _ Ev) as H4.
      destruct (skip_ws s4) as [|c3 s5] eqn:E4; [discriminate|].
      destruct (skip_ws_suffix_eq _ _ _ E4) as [_ H5].
      assert (T : suffix s5 s).
      { eapply suffix_trans; [exact H5|]. eapply suffix_trans; [exact H4|].
        eapply suffix_trans; [exact H3|]. eapply suffix_trans; [exact H2|exact H1]. }
      destruct (c3 =? 44); [eapply suffix_trans; [eapply IHm; eauto|exact T]|].
      destruct (c3 =? 125); [inversion H; subst; exact T|discriminate].
Qed.

Theorem scan_suffix : forall s r, scan s = Done r -> suffix r s.
Proof. intros s r H. exact (proj1 (suffix_all _) _ _ _ H). Qed.
