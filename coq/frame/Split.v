(* Split: model of channel/split.go (Split(b), Line = Split('\n')).

   type split struct{ split byte; wc io.WriteCloser; buf *bufio.Reader }

   Definitions only; proofs in SplitProofs.v. *)
From Coq Require Import List NArith Bool Lia.
From JV Require Import Bytes FrameBase.
Import ListNotations.
Local Open Scope N_scope.

(* func (c split) Send(msg []byte) error {
     if bytes.IndexByte(msg, c.split) >= 0 { return errors.New("message contains split byte") }
     out := append(msg, c.split); _, err := c.wc.Write(out); return err } *)
Definition send (b : N) (r : bytes) : send_result :=
  if mem b r then Refused else Sent (r ++ [b]).

(* func (c split) Recv() ([]byte, error) {
     var buf bytes.Buffer
     for {
       chunk, err := c.buf.ReadSlice(c.split)
       buf.Write(chunk)
       if err == bufio.ErrBufferFull { continue }
       line := buf.Bytes()
       if err != nil {                       // fix F6
         if len(line) == 0 { return nil, err }
         return line, err
       }
       return line[:len(line)-1], nil
     } }
   before F6:   if n := len(line) - 1; n >= 0 { return line[:n], err }; return nil, err

   [acc] is the bytes.Buffer as the list of chunks written so far, newest first
   (buf.Bytes() = concat (rev acc)); [k] is the bufio window. *)
Definition buf_bytes (acc : list bytes) : bytes := concat (rev acc).

Fixpoint recv_loop (c : cfg) (fuel : nat) (b k : N) (acc : list bytes) (s : bytes) : result unit :=
  match fuel with
  | O => OutOfFuel
  | S f =>
      match read_slice b k s with
      | (chunk, rest, RSFull) => recv_loop c f b k (chunk :: acc) rest
      | (chunk, rest, RSEOF) =>
          let line := buf_bytes (chunk :: acc) in
          if fix_F6 c then
            match line with
            | [] => Err EEOF tt rest
            | _ => OkWithErr line EEOF tt rest
            end
          else
            match line with
            | [] => Err EEOF tt rest
            | _ => OkWithErr (removelast line) EEOF tt rest
            end
      | (chunk, rest, RSFound) =>
          Ok (removelast (buf_bytes (chunk :: acc))) tt rest
      end
  end.

(* every iteration but the last consumes k > 0 bytes *)
Definition recv_k (c : cfg) (b k : N) (_ : unit) (s : bytes) : result unit :=
  recv_loop c (S (length s)) b k [] s.

Definition recv (c : cfg) (b : N) : unit -> bytes -> result unit := recv_k c b bufio_size.

Definition recv_all (c : cfg) (b : N) (s : bytes) : list item := recv_all_from (recv c b) tt s.
