(* HdrProofs: C11 (round trip with buffer-state threading) and the no-crash part of C12
   for the header framings (model: Hdr.v).  Soundness against the reference grammar and
   the truncation theorem are in HdrSpecProofs.v. *)
From Coq Require Import List NArith ZArith Bool Lia Arith.
From JV Require Import Bytes FrameBase FrameBaseProofs Hdr.
Import ListNotations.
Local Open Scope N_scope.

(* ---- strings -------------------------------------------------------------- *)

Lemma trim_right_crlf_snoc l c : is_crlf c = false -> trim_right_crlf (l ++ [c]) = l ++ [c].
Proof.
  intros Hc. induction l as [|x l IH]; cbn.
  - now rewrite Hc.
  - rewrite IH. destruct (l ++ [c]) eqn:E; [destruct l; discriminate|reflexivity].
Qed.

Lemma trim_right_crlf_app_crlf l t :
  Forall (fun c => is_crlf c = true) t -> trim_right_crlf (l ++ t) = trim_right_crlf l.
Proof.
  intros Ht. assert (Hn : trim_right_crlf t = []).
  { induction Ht as [|c t Hc _ IH]; cbn; auto. now rewrite IH, Hc. }
  induction l as [|x l IH]; cbn; [exact Hn|]. now rewrite IH.
Qed.

Lemma trim_right_crlf_spec s :
  exists t, s = trim_right_crlf s ++ t /\ Forall (fun c => is_crlf c = true) t /\
            (forall l' c, trim_right_crlf s = l' ++ [c] -> is_crlf c = false).
Proof.
  induction s as [|x s [t [Hs [Ht Hl]]]].
  - exists []. cbn. repeat split; auto. intros [|? ?] c H; discriminate.
  - cbn. destruct (trim_right_crlf s) as [|y l] eqn:E.
    + destruct (is_crlf x) eqn:Hx.
      * exists (x :: t). cbn in *. repeat split; [now f_equal | constructor; auto |].
        intros [|? ?] c H; discriminate.
      * exists t. cbn in *. repeat split; [now f_equal | auto |].
        intros l' c H. destruct l' as [|? [|? ?]]; inversion H; subst; auto.
    + exists t. repeat split; [cbn; now f_equal | auto |].
      intros l' c H. destruct l' as [|z l'].
      * discriminate.
      * inversion H; subst. eapply Hl. eauto.
Qed.

Lemma split_colon_found name v : ~ In 58 name -> split_colon (name ++ 58 :: v) = Some (name, v).
Proof.
  induction name as [|c n IH]; intros Hn; cbn; auto.
  destruct (N.eqb_spec c 58) as [->|Hc]; [exfalso; apply Hn; now left|].
  rewrite IH; auto. intros Hx. apply Hn. now right.
Qed.

Lemma split_colon_spec s name v : split_colon s = Some (name, v) -> s = name ++ 58 :: v /\ ~ In 58 name.
Proof.
  revert name v. induction s as [|c s IH]; intros name v H; cbn in H; [discriminate|].
  destruct (N.eqb_spec c 58) as [->|Hc].
  - inversion H; subst. split; auto.
  - destruct (split_colon s) as [[a b]|] eqn:E; [|discriminate]. inversion H; subst.
    destruct (IH _ _ eq_refl) as [-> Hn]. split; auto. intros [Hx|Hx]; auto.
Qed.

Lemma split_colon_none s : split_colon s = None <-> ~ In 58 s.
Proof.
  induction s as [|c s IH]; cbn; [split; auto|].
  destruct (N.eqb_spec c 58) as [->|Hc].
  - split; [discriminate|]. intros H. exfalso. apply H. now left.
  - destruct (split_colon s) as [[a b]|] eqn:E.
    + split; [discriminate|]. intros H. assert (Hs : ~ In 58 s) by tauto. apply IH in Hs. discriminate.
    + split; auto. intros _ [Hx|Hx]; [congruence|]. exact (proj1 IH eq_refl Hx).
Qed.

(* a string that starts with an ASCII byte that is not white space is not trimmed at the front *)
Lemma trim_front_noop rv c s : c < 128 -> ascii_space c = false -> trim_front rv (c :: s) = c :: s.
Proof.
  intros Hc Hs. cbn [trim_front]. rewrite Hs.
  destruct s as [|c2 s2]; auto.
  assert (H2 : (if rv then ws2 c2 c else ws2 c c2) = false).
  { unfold ws2. destruct rv;
      [destruct (N.eqb_spec c 133), (N.eqb_spec c 160) | destruct (N.eqb_spec c 194)];
      try lia; cbn; rewrite ?andb_false_r; reflexivity. }
  rewrite H2. destruct s2 as [|c3 s3]; auto.
  assert (H3 : (if rv then ws3 c3 c2 c else ws3 c c2 c3) = false).
  { unfold ws3. destruct rv;
      [destruct (N.eqb_spec c 128), (N.eqb_spec c 168), (N.eqb_spec c 169), (N.eqb_spec c 175),
         (N.eqb_spec c 159), (N.leb_spec 128 c)
      | destruct (N.eqb_spec c 225), (N.eqb_spec c 226), (N.eqb_spec c 227)];
      try lia; cbn; rewrite ?andb_false_r; reflexivity. }
  now rewrite H3.
Qed.

Definition plain_byte (c : N) : Prop := c < 128 /\ ascii_space c = false.

(* a string that starts and ends with plain (ASCII, non-space) bytes is its own TrimSpace *)
Lemma trim_space_plain s x y t :
  s = x :: t -> rev s = y :: rev (removelast s) -> plain_byte x -> plain_byte y -> trim_space s = s.
Proof.
  intros Hs Hr [Hx1 Hx2] [Hy1 Hy2]. unfold trim_space.
  rewrite Hs at 1. rewrite trim_front_noop by assumption. rewrite <- Hs.
  rewrite Hr. rewrite trim_front_noop by assumption. rewrite <- Hr. apply rev_involutive.
Qed.

Lemma rev_last_cons (s : bytes) : s <> [] -> rev s = last s 0 :: rev (removelast s).
Proof.
  intros Hs. rewrite (app_removelast_last 0 Hs) at 1. now rewrite rev_app_distr.
Qed.

Lemma trim_space_plain_ends s :
  s <> [] -> plain_byte (hd 0 s) -> plain_byte (last s 0) -> trim_space s = s.
Proof.
  intros Hs Hh Hl. destruct s as [|x t]; [congruence|].
  eapply trim_space_plain; eauto. now apply rev_last_cons.
Qed.

(* leading spaces are trimmed *)
Lemma trim_space_space s : trim_space (32 :: s) = trim_space s.
Proof. reflexivity. Qed.

(* ---- numbers -------------------------------------------------------------- *)

Lemma digits_val_app ds1 ds2 acc :
  digits_val (ds1 ++ ds2) acc = match digits_val ds1 acc with Some a => digits_val ds2 a | None => None end.
Proof.
  revert acc. induction ds1 as [|c ds IH]; intros acc; cbn; auto.
  destruct (is_digit c); auto.
Qed.

Lemma is_digit_of_lt n : n < 10 -> is_digit (48 + n) = true.
Proof.
  intros H. unfold is_digit. destruct (N.leb_spec 48 (48 + n)), (N.leb_spec (48 + n) 57); auto; lia.
Qed.

(* itoa_aux prepends the decimal digits of n *)
Lemma itoa_aux_S f n acc :
  itoa_aux (S f) n acc =
  if n <? 10 then (48 + n mod 10) :: acc else itoa_aux f (n / 10) ((48 + n mod 10) :: acc).
Proof. reflexivity. Qed.

Lemma itoa_aux_spec : forall fuel n acc,
  n < 2 ^ N.of_nat fuel ->
  exists ds, itoa_aux (S fuel) n acc = ds ++ acc /\ ds <> [] /\
             Forall (fun c => is_digit c = true) ds /\
             (forall a, digits_val ds a = Some (a * 10 ^ N.of_nat (length ds) + n)).
Proof.
  induction fuel as [|f IH]; intros n acc Hn; rewrite itoa_aux_S.
  - cbn in Hn. assert (n = 0) by lia. subst. cbn.
    exists [48]. split; [reflexivity|]. split; [discriminate|]. split; [repeat constructor|].
    intros a; cbn; f_equal; lia.
  - destruct (N.ltb_spec n 10) as [Hlt|Hge].
    + exists [48 + n mod 10]. rewrite N.mod_small by assumption.
      split; [reflexivity|]. split; [discriminate|]. split.
      * constructor; [now apply is_digit_of_lt|constructor].
      * intros a. cbn [digits_val]. rewrite is_digit_of_lt by assumption. f_equal.
        cbn [length]. replace (N.of_nat 1) with 1 by reflexivity. lia.
    + assert (Hd : n / 10 < 2 ^ N.of_nat f).
      { apply N.div_lt_upper_bound; [lia|].
        rewrite Nat2N.inj_succ, N.pow_succ_r' in Hn. lia. }
      destruct (IH (n / 10) ((48 + n mod 10) :: acc) Hd) as [ds [E [Hne [Hall Hv]]]].
      rewrite E.
      exists (ds ++ [48 + n mod 10]). rewrite <- app_assoc.
      split; [reflexivity|]. split; [|split].
      * destruct ds; discriminate.
      * apply Forall_app. split; auto. constructor; [|constructor].
        apply is_digit_of_lt. apply N.mod_lt. lia.
      * intros a. rewrite digits_val_app, Hv. cbn [digits_val].
        rewrite is_digit_of_lt by (apply N.mod_lt; lia). f_equal.
        rewrite app_length. cbn [length]. rewrite Nat.add_1_r, Nat2N.inj_succ, N.pow_succ_r'.
        assert (Hdm : n = 10 * (n / 10) + n mod 10) by (apply N.div_mod; lia).
        remember (10 ^ N.of_nat (length ds)) as X. remember (n / 10) as q. remember (n mod 10) as m.
        lia.
Qed.

Lemma itoa_spec n :
  itoa n <> [] /\ Forall (fun c => is_digit c = true) (itoa n) /\ digits_val (itoa n) 0 = Some n.
Proof.
  unfold itoa.
  destruct (itoa_aux_spec (N.to_nat (N.size n)) n []) as [ds [E [Hne [Hall Hv]]]].
  - rewrite N2Nat.id. pose proof (N.size_gt n). lia.
  - rewrite E, app_nil_r. split; [assumption|]. split; [assumption|]. rewrite Hv. f_equal; lia.
Qed.

Lemma is_digit_range c : is_digit c = true -> 48 <= c <= 57.
Proof.
  unfold is_digit. destruct (N.leb_spec 48 c), (N.leb_spec c 57); cbn; try discriminate. lia.
Qed.

Lemma digit_plain c : is_digit c = true -> plain_byte c.
Proof.
  intros H. apply is_digit_range in H. split; [lia|].
  unfold ascii_space.
  destruct (N.eqb_spec c 9), (N.eqb_spec c 10), (N.eqb_spec c 11), (N.eqb_spec c 12),
    (N.eqb_spec c 13), (N.eqb_spec c 32); try lia; reflexivity.
Qed.

Lemma atoi_digits ds n :
  ds <> [] -> Forall (fun c => is_digit c = true) ds -> digits_val ds 0 = Some n ->
  (Z.of_N n <= max_int)%Z -> atoi ds = Some (Z.of_N n).
Proof.
  intros Hne Hall Hv Hmax. unfold atoi.
  destruct ds as [|c r]; [congruence|].
  inversion Hall as [|? ? Hc _]; subst. apply is_digit_range in Hc.
  destruct (N.eqb_spec c 43); [lia|]. destruct (N.eqb_spec c 45); [lia|].
  rewrite Hv. unfold min_int, max_int in *.
  destruct (Z.ltb_spec (Z.of_N n) (-9223372036854775808)); [lia|].
  destruct (Z.ltb_spec 9223372036854775807 (Z.of_N n)); [lia|]. reflexivity.
Qed.

Lemma atoi_itoa n : (Z.of_N n <= max_int)%Z -> atoi (itoa n) = Some (Z.of_N n).
Proof.
  intros H. destruct (itoa_spec n) as [Hne [Hall Hv]]. now apply atoi_digits.
Qed.

Lemma trim_space_itoa n : trim_space (itoa n) = itoa n.
Proof.
  destruct (itoa_spec n) as [Hne [Hall _]].
  apply trim_space_plain_ends; auto.
  - destruct (itoa n) as [|c r]; [congruence|]. inversion Hall; subst. now apply digit_plain.
  - apply digit_plain. rewrite Forall_forall in Hall. apply Hall.
    rewrite (app_removelast_last 0 Hne) at 2. apply in_or_app. right. now left.
Qed.

Lemma itoa_no_lf n : ~ In 10 (itoa n).
Proof.
  destruct (itoa_spec n) as [_ [Hall _]]. rewrite Forall_forall in Hall.
  intros H. apply Hall in H. discriminate.
Qed.

Lemma itoa_last_not_crlf n l c : itoa n = l ++ [c] -> is_crlf c = false.
Proof.
  intros E. destruct (itoa_spec n) as [_ [Hall _]]. rewrite Forall_forall in Hall.
  assert (Hc : is_digit c = true) by (apply Hall; rewrite E; apply in_or_app; right; now left).
  apply is_digit_range in Hc. unfold is_crlf.
  destruct (N.eqb_spec c 13), (N.eqb_spec c 10); try lia; reflexivity.
Qed.

(* ---- TrimSpace on usable media types ---------------------------------------- *)

Lemma trim_front_head rv : forall n x c y,
  (length x <= n)%nat -> trim_front rv x = c :: y -> ascii_space c = false.
Proof.
  induction n as [|n IH]; intros x c y Hl H.
  - destruct x; [discriminate | cbn in Hl; lia].
  - destruct x as [|c1 s1]; [discriminate|]. cbn [trim_front] in H. cbn [length] in Hl.
    destruct (ascii_space c1) eqn:E1.
    + eapply IH; [|exact H]. lia.
    + destruct s1 as [|c2 s2]; [inversion H; subst; exact E1|].
      destruct (if rv then ws2 c2 c1 else ws2 c1 c2).
      * eapply IH; [|exact H]. cbn [length] in Hl. lia.
      * destruct s2 as [|c3 s3]; [inversion H; subst; exact E1|].
        destruct (if rv then ws3 c3 c2 c1 else ws3 c1 c2 c3).
        -- eapply IH; [|exact H]. cbn [length] in Hl. lia.
        -- inversion H; subst; exact E1.
Qed.

Lemma not_space_not_crlf c : ascii_space c = false -> is_crlf c = false.
Proof.
  intros H. unfold ascii_space in H.
  repeat (apply orb_false_iff in H; destruct H as [H ?]).
  unfold is_crlf. apply orb_false_iff; split; assumption.
Qed.

(* a string that TrimSpace leaves alone does not end in white space *)
Lemma trimmed_last l c : trim_space (l ++ [c]) = l ++ [c] -> is_crlf c = false.
Proof.
  intros H. unfold trim_space in H. apply (f_equal (@rev N)) in H.
  rewrite rev_involutive in H. rewrite (rev_app_distr l [c]) in H. cbn [rev app] in H.
  apply not_space_not_crlf. eapply trim_front_head; [apply le_n | exact H].
Qed.

Lemma usable_mime_spec mt : usable_mime mt = true -> trim_space mt = mt /\ ~ In 10 mt.
Proof.
  unfold usable_mime. rewrite andb_true_iff, negb_true_iff. intros [H1 H2].
  split; [now apply beq_eq | now apply mem_false].
Qed.

(* ---- the header loop, one line at a time -------------------------------------- *)

Lemma hdr_loop_S f ct cl s :
  hdr_loop (S f) ct cl s =
  let '(raw, rest, found) := read_string 10 s in
  if negb found && is_nil raw then HErr EEOF rest
  else if is_nil (trim_right_crlf raw) then HDone ct cl rest
  else match split_colon (trim_right_crlf raw) with
       | Some (name, value) =>
           if beq (ascii_lower name) s_content_type then hdr_loop f (trim_space value) cl rest
           else if beq (ascii_lower name) s_content_length then hdr_loop f ct (trim_space value) rest
           else hdr_loop f ct cl rest
       | None => HErr EInvalidHeader rest
       end.
Proof.
  cbn [hdr_loop]. destruct (read_string 10 s) as [[raw rest] found].
  destruct raw as [|c raw], found; cbn [negb andb is_nil]; try reflexivity;
    destruct (trim_right_crlf (c :: raw)); reflexivity.
Qed.

(* a well-formed header line  name ":" value CR LF  *)
Lemma hdr_loop_field f ct cl name value rest :
  ~ In 10 name -> ~ In 10 value -> ~ In 58 name ->
  trim_right_crlf (name ++ 58 :: value) = name ++ 58 :: value ->
  hdr_loop (S f) ct cl ((name ++ 58 :: value) ++ 13 :: 10 :: rest) =
    if beq (ascii_lower name) s_content_type then hdr_loop f (trim_space value) cl rest
    else if beq (ascii_lower name) s_content_length then hdr_loop f ct (trim_space value) rest
    else hdr_loop f ct cl rest.
Proof.
  intros Hn1 Hn2 Hc Ht. rewrite hdr_loop_S.
  replace ((name ++ 58 :: value) ++ 13 :: 10 :: rest)
    with (((name ++ 58 :: value) ++ [13]) ++ 10 :: rest) by (rewrite <- !app_assoc; reflexivity).
  rewrite read_string_found.
  2:{ intros Hx. apply in_app_or in Hx. destruct Hx as [Hx|[Hx|[]]]; [|discriminate].
      apply in_app_or in Hx. destruct Hx as [Hx|[Hx|Hx]]; [tauto|discriminate|tauto]. }
  cbn [negb andb].
  replace (((name ++ 58 :: value) ++ [13]) ++ [10]) with ((name ++ 58 :: value) ++ [13; 10])
    by (rewrite <- !app_assoc; reflexivity).
  rewrite trim_right_crlf_app_crlf by (repeat constructor).
  rewrite Ht.
  assert (is_nil (name ++ 58 :: value) = false) as -> by (destruct name; reflexivity).
  rewrite split_colon_found by assumption. reflexivity.
Qed.

Lemma hdr_loop_blank f ct cl rest : hdr_loop (S f) ct cl (13 :: 10 :: rest) = HDone ct cl rest.
Proof. rewrite hdr_loop_S. reflexivity. Qed.

Definition name_ct : bytes := [67; 111; 110; 116; 101; 110; 116; 45; 84; 121; 112; 101].            (* Content-Type *)
Definition name_cl : bytes := [67; 111; 110; 116; 101; 110; 116; 45; 76; 101; 110; 103; 116; 104].  (* Content-Length *)

Lemma nonempty_snoc (s : bytes) : s <> [] -> exists l c, s = l ++ [c].
Proof. intros H. exists (removelast s), (last s 0). now apply app_removelast_last. Qed.

Lemma hdr_loop_clen f ct cl n rest :
  hdr_loop (S f) ct cl (s_content_length_hdr ++ itoa n ++ crlf ++ rest) = hdr_loop f ct (itoa n) rest.
Proof.
  change (s_content_length_hdr ++ itoa n ++ crlf ++ rest)
    with ((name_cl ++ 58 :: 32 :: itoa n) ++ 13 :: 10 :: rest).
  rewrite hdr_loop_field.
  - change (beq (ascii_lower name_cl) s_content_type) with false.
    change (beq (ascii_lower name_cl) s_content_length) with true.
    cbv iota. now rewrite trim_space_space, trim_space_itoa.
  - apply mem_false. reflexivity.
  - intros [H|H]; [discriminate | exact (itoa_no_lf n H)].
  - apply mem_false. reflexivity.
  - destruct (itoa_spec n) as [Hne _]. destruct (nonempty_snoc _ Hne) as [l [c E]].
    rewrite E.
    replace (name_cl ++ 58 :: 32 :: l ++ [c]) with ((name_cl ++ 58 :: 32 :: l) ++ [c])
      by (rewrite <- app_assoc; reflexivity).
    apply trim_right_crlf_snoc. eapply itoa_last_not_crlf; eauto.
Qed.

Lemma hdr_loop_ctype f ct cl mt rest :
  mt <> [] -> trim_space mt = mt -> ~ In 10 mt ->
  hdr_loop (S f) ct cl (s_content_type_hdr ++ mt ++ crlf ++ rest) = hdr_loop f mt cl rest.
Proof.
  intros Hne Ht Hlf.
  change (s_content_type_hdr ++ mt ++ crlf ++ rest)
    with ((name_ct ++ 58 :: 32 :: mt) ++ 13 :: 10 :: rest).
  rewrite hdr_loop_field.
  - change (beq (ascii_lower name_ct) s_content_type) with true.
    cbv iota. now rewrite trim_space_space, Ht.
  - apply mem_false. reflexivity.
  - intros [H|H]; [discriminate | auto].
  - apply mem_false. reflexivity.
  - destruct (nonempty_snoc _ Hne) as [l [c E]]. rewrite E in Ht |- *.
    replace (name_ct ++ 58 :: 32 :: l ++ [c]) with ((name_ct ++ 58 :: 32 :: l) ++ [c])
      by (rewrite <- app_assoc; reflexivity).
    apply trim_right_crlf_snoc. now apply trimmed_last with (l := l).
Qed.

(* what Send writes: the header block for a payload of n bytes, then the payload *)
Definition enc_hdr (mt : bytes) (n : N) : bytes :=
  (match mt with [] => [] | _ => s_content_type_hdr ++ mt ++ crlf end)
  ++ s_content_length_hdr ++ itoa n ++ crlf ++ crlf.

Definition enc (mt r : bytes) : bytes := enc_hdr mt (N.of_nat (length r)) ++ r.

Lemma send_enc mt r : send mt r = Sent (enc mt r).
Proof. unfold send, enc, enc_hdr. now rewrite <- !app_assoc. Qed.

Lemma enc_hdr_length mt n : (3 <= length (enc_hdr mt n))%nat.
Proof. unfold enc_hdr. rewrite !app_length. cbn [length s_content_length_hdr crlf]. lia. Qed.

Lemma enc_nonempty mt r : enc mt r <> [].
Proof.
  unfold enc. pose proof (enc_hdr_length mt (N.of_nat (length r))).
  destruct (enc_hdr mt (N.of_nat (length r))); [cbn in *; lia | discriminate].
Qed.

Lemma hdr_loop_enc_hdr f mt n rest :
  usable_mime mt = true ->
  hdr_loop (S (S (S f))) [] [] (enc_hdr mt n ++ rest) = HDone mt (itoa n) rest.
Proof.
  intros Hu. destruct (usable_mime_spec _ Hu) as [Ht Hlf]. unfold enc_hdr.
  destruct mt as [|m0 mt'].
  - cbn [app]. rewrite <- !app_assoc. rewrite hdr_loop_clen. apply hdr_loop_blank.
  - remember (m0 :: mt') as mt. rewrite <- !app_assoc.
    rewrite hdr_loop_ctype; auto; [|subst; discriminate].
    rewrite hdr_loop_clen. apply hdr_loop_blank.
Qed.

Lemma fuel_enc_hdr mt n rest : exists f, S (length (enc_hdr mt n ++ rest)) = S (S (S f)).
Proof.
  pose proof (enc_hdr_length mt n). rewrite app_length.
  exists (length (enc_hdr mt n) + length rest - 2)%nat. lia.
Qed.

(* ---- the body: buffer policy and ReadFull / CopyN -------------------------------- *)

Definition buf_bound : N := 33554432.   (* 2 * maxPrealloc: no receive buffer is ever longer *)

Definition body_outcome (size : N) (cerr : option errkind) (st : N) (s : bytes) : result N :=
  match take_n size s with
  | (data, rest, true) => finish data cerr st rest
  | ([], rest, false) => Err EEOF st rest
  | (_, rest, false) => Err EUnexpectedEOF st rest
  end.

(* with a valid length and a buffer within the bound, the fixed code neither panics in make
   nor slices beyond the buffer: it reads exactly [size] bytes *)
Lemma recv_body_valid want ct cl st s z :
  st <= buf_bound -> cl <> [] -> atoi cl = Some z -> (0 <= z)%Z ->
  exists st', st' <= buf_bound /\
    recv_body cfg_fixed want ct cl st s =
    body_outcome (Z.to_N z) (if beq ct want then None else Some (EContentTypeMismatch ct)) st' s.
Proof.
  intros Hst Hne Ha Hz. unfold recv_body, body_outcome. destruct cl as [|c0 cl']; [congruence|].
  rewrite Ha. destruct (Z.ltb_spec z 0) as [|_]; [lia|].
  set (size := Z.to_N z). cbn [fix_F5 cfg_fixed andb].
  unfold buf_bound, max_prealloc, shrink_above in *.
  destruct (N.ltb_spec st size) as [Hlt|Hge]; [destruct (N.ltb_spec 16777216 size) as [Hbig|Hsmall]|];
    rewrite ?andb_false_r; cbn [andb orb].
  - exists st. split; [assumption | reflexivity].
  - (* grow: make(2*size), size <= maxPrealloc *)
    assert (Hw : wrap64 (z * 2) = (z * 2)%Z).
    { unfold wrap64. rewrite Z.mod_small; lia. }
    rewrite Hw. unfold make_slice, max_alloc.
    destruct (Z.ltb_spec (z * 2) 0); [lia|]. destruct (Z.ltb_spec 281474976710656 (z * 2)); [lia|].
    cbn [orb]. destruct (N.ltb_spec (Z.to_N (z * 2)) size); [lia|].
    exists (Z.to_N (z * 2)). split; [lia | reflexivity].
  - destruct ((1048576 <? st) && (size <? st / 4)) eqn:Esh.
    + (* shrink *)
      apply andb_true_iff in Esh. destruct Esh as [_ Esh]. apply N.ltb_lt in Esh.
      assert (Hq : st / 4 <= 8388608).
      { change 8388608 with (33554432 / 4). apply N.div_le_mono; lia. }
      assert (Hw : wrap64 (z * 2) = (z * 2)%Z).
      { unfold wrap64. rewrite Z.mod_small; lia. }
      rewrite Hw. unfold make_slice, max_alloc.
      destruct (Z.ltb_spec (z * 2) 0); [lia|]. destruct (Z.ltb_spec 281474976710656 (z * 2)); [lia|].
      cbn [orb]. destruct (N.ltb_spec (Z.to_N (z * 2)) size); [lia|].
      exists (Z.to_N (z * 2)). split; [lia | reflexivity].
    + destruct (N.ltb_spec st size); [lia|]. exists st. split; [assumption | reflexivity].
Qed.

Lemma recv_strict_unfold c want st s :
  recv_strict c want st s =
  match hdr_loop (S (length s)) [] [] s with
  | HOutOfFuel => OutOfFuel
  | HErr e rest => Err e st rest
  | HDone ct cl rest => recv_body c want ct cl st rest
  end.
Proof. reflexivity. Qed.

Lemma recv_of_strict_ok c p want st s r st' rest :
  recv_strict c want st s = Ok r st' rest -> recv c p want st s = Ok r st' rest.
Proof. intros H. unfold recv. rewrite H. destruct p; reflexivity. Qed.

Lemma recv_of_strict_err c p want st s e st' rest :
  recv_strict c want st s = Err e st' rest -> recv c p want st s = Err e st' rest.
Proof. intros H. unfold recv. rewrite H. destruct p; reflexivity. Qed.

(* a header block for n bytes at the front of the stream: Recv reads exactly n bytes *)
Lemma recv_enc_hdr mt st n rest :
  usable_mime mt = true -> (Z.of_N n <= max_int)%Z -> st <= buf_bound ->
  exists st', st' <= buf_bound /\
    recv_strict cfg_fixed mt st (enc_hdr mt n ++ rest) = body_outcome n None st' rest.
Proof.
  intros Hu Hlen Hst.
  destruct (fuel_enc_hdr mt n rest) as [f Hf].
  destruct (itoa_spec n) as [Hne _].
  destruct (recv_body_valid mt mt (itoa n) st rest (Z.of_N n)) as [st' [Hst' Hb]]; auto.
  { now apply atoi_itoa. }
  { lia. }
  exists st'. split; auto. rewrite recv_strict_unfold, Hf, hdr_loop_enc_hdr by assumption.
  rewrite Hb, N2Z.id, beq_refl. reflexivity.
Qed.

(* one framed record at the front of the stream *)
Lemma recv_enc_ok p mt st r rest :
  usable_mime mt = true -> (Z.of_nat (length r) <= max_int)%Z -> st <= buf_bound ->
  exists st', recv cfg_fixed p mt st (enc mt r ++ rest) = Ok r st' rest /\ st' <= buf_bound.
Proof.
  intros Hu Hlen Hst. unfold enc. rewrite <- app_assoc.
  destruct (recv_enc_hdr mt st (N.of_nat (length r)) (r ++ rest)) as [st' [Hst' E]]; auto; [lia|].
  exists st'. split; auto. apply recv_of_strict_ok. rewrite E. unfold body_outcome.
  rewrite take_n_app. destruct r; reflexivity.
Qed.

Lemma recv_nil c p want st : recv c p want st [] = Err EEOF st [].
Proof. destruct p; reflexivity. Qed.

(* ---- C11 -------------------------------------------------------------------- *)

Theorem hdr_round_trip : forall p mt rs st,
  usable_mime mt = true -> st <= buf_bound ->
  Forall (fun r => (Z.of_nat (length r) <= max_int)%Z) rs ->
  send_all (send mt) rs = Some (concat (map (enc mt) rs)) /\
  recv_all cfg_fixed p mt st (concat (map (enc mt) rs)) = map IRec rs ++ [IErr EEOF].
Proof.
  intros p mt rs st Hu Hst Hrs. split.
  - apply send_all_sent. apply Forall_forall. intros r _. apply send_enc.
  - unfold recv_all.
    apply (round_trip (recv cfg_fixed p mt) (enc mt) (fun st => st <= buf_bound)
             (fun r => (Z.of_nat (length r) <= max_int)%Z) (fun j => j = [])); auto.
    + intros r _. apply enc_nonempty.
    + intros st0 j r rest Hi -> Hr. cbn [app].
      destruct (recv_enc_ok p mt st0 r rest Hu Hr Hi) as [st' [E Hi']].
      exists st', []. auto.
    + intros st0 j Hi ->. exists st0, [], st0, []. rewrite recv_nil. auto.
Qed.

Example hdr_round_trip_nonvacuous :
  usable_mime lsp_mime = true /\ usable_mime [] = true /\
  recv_all cfg_fixed Optional lsp_mime 0 (concat (map (enc lsp_mime) [[97]; []; [98; 99]]))
  = [IRec [97]; IRec []; IRec [98; 99]; IErr EEOF] /\
  recv_all cfg_fixed Strict [] 0 (concat (map (enc []) [[]; [10; 13]]))
  = [IRec []; IRec [10; 13]; IErr EEOF].
Proof. vm_compute. auto. Qed.

(* ---- C12: no panic, no fuel exhaustion, progress ------------------------------------ *)

Lemma hdr_loop_progress : forall f ct cl s, (length s < f)%nat ->
  match hdr_loop f ct cl s with
  | HDone _ _ rest => (length rest < length s)%nat
  | HErr e rest => (length rest < length s)%nat \/ (s = [] /\ rest = [] /\ e = EEOF)
  | HOutOfFuel => False
  end.
Proof.
  induction f as [|f IH]; intros ct cl s Hf; [lia|].
  rewrite hdr_loop_S. destruct (read_string 10 s) as [[raw rest] found] eqn:E.
  destruct (read_string_spec _ _ _ _ _ E) as [Hs [Ht Hfl]].
  destruct raw as [|c raw].
  - destruct found.
    { destruct (Ht eq_refl) as [q [Hq _]]. destruct q; discriminate. }
    cbn [negb andb is_nil]. destruct (Hfl eq_refl) as [-> _]. cbn in Hs. subst s. right. auto.
  - assert (Hlen : (length rest < length s)%nat) by (subst s; cbn; rewrite app_length; lia).
    replace (negb found && is_nil (c :: raw)) with false by (destruct found; reflexivity).
    destruct (is_nil (trim_right_crlf (c :: raw))); [exact Hlen|].
    destruct (split_colon _) as [[name value]|]; [|left; exact Hlen].
    assert (G : forall ct' cl',
      match hdr_loop f ct' cl' rest with
      | HDone _ _ r' => (length r' < length s)%nat
      | HErr e r' => (length r' < length s)%nat \/ (s = [] /\ r' = [] /\ e = EEOF)
      | HOutOfFuel => False
      end).
    { intros ct' cl'. assert (Hr : (length rest < f)%nat) by lia.
      specialize (IH ct' cl' rest Hr). destruct (hdr_loop f ct' cl' rest) as [? ? r'|e r'|]; auto.
      - lia.
      - left. destruct IH as [IH|[-> [-> _]]]; [lia|]. cbn in *. lia. }
    destruct (beq _ _); [apply G|]. destruct (beq _ _); apply G.
Qed.

Lemma recv_body_safe want ct cl st s : st <= buf_bound ->
  match recv_body cfg_fixed want ct cl st s with
  | Ok _ st' r' | OkWithErr _ _ st' r' | Err _ st' r' => st' <= buf_bound /\ (length r' <= length s)%nat
  | _ => False
  end.
Proof.
  intros Hst. destruct cl as [|c0 cl'] eqn:Ecl; [cbn; auto|]. rewrite <- Ecl.
  destruct (atoi cl) as [z|] eqn:Ea.
  2:{ unfold recv_body. rewrite Ea. subst cl. cbv beta iota. auto. }
  destruct (Z.ltb_spec z 0) as [Hneg|Hpos].
  { unfold recv_body. rewrite Ea. subst cl. cbv beta iota. destruct (Z.ltb_spec z 0); [auto|lia]. }
  destruct (recv_body_valid want ct cl st s z Hst) as [st' [Hst' E]]; auto; [subst; discriminate|].
  rewrite E. unfold body_outcome. destruct (take_n (Z.to_N z) s) as [[a r] ok] eqn:Et.
  destruct (take_n_spec _ _ _ _ _ Et) as [Hs _].
  assert (length r <= length s)%nat by (subst s; rewrite app_length; lia).
  destruct ok.
  - destruct a; unfold finish; destruct (if beq ct want then None else Some (EContentTypeMismatch ct));
      cbv beta iota; split; assumption.
  - destruct a; cbv beta iota; split; assumption.
Qed.

Definition consumed (s : bytes) (x : result N) : Prop :=
  match x with
  | Ok _ st' rest | OkWithErr _ _ st' rest | Err _ st' rest => st' <= buf_bound /\ (length rest < length s)%nat
  | _ => False
  end.

Lemma recv_strict_cases want st s : st <= buf_bound ->
  (s = [] /\ recv_strict cfg_fixed want st s = Err EEOF st []) \/
  (s <> [] /\ consumed s (recv_strict cfg_fixed want st s)).
Proof.
  intros Hst. destruct s as [|c s']; [left; auto|]. right. split; [discriminate|].
  remember (c :: s') as s. rewrite recv_strict_unfold.
  pose proof (hdr_loop_progress (S (length s)) [] [] s (le_n _)) as P.
  destruct (hdr_loop (S (length s)) [] [] s) as [ct cl rest|e rest|]; [| |contradiction].
  - pose proof (recv_body_safe want ct cl st rest Hst) as Q. unfold consumed.
    destruct (recv_body cfg_fixed want ct cl st rest); try contradiction; destruct Q; split; auto; lia.
  - unfold consumed. split; auto. destruct P as [P|[-> _]]; [auto|subst; discriminate].
Qed.

Lemma recv_cases c0 p want st s : st <= buf_bound -> c0 = cfg_fixed ->
  (s = [] /\ recv c0 p want st s = Err EEOF st []) \/
  (s <> [] /\ consumed s (recv c0 p want st s)).
Proof.
  intros Hst ->. destruct (recv_strict_cases want st s Hst) as [[-> E]|[Hne C]].
  - left. split; auto. apply recv_nil.
  - right. split; auto. unfold recv. destruct p; [exact C|].
    destruct (recv_strict cfg_fixed want st s) as [r st' rest|r e st' rest|e st' rest|k|]; try exact C.
    destruct e; try exact C. destruct got; exact C.
Qed.

Theorem hdr_total_no_crash : forall p want st s,
  st <= buf_bound ->
  match recv cfg_fixed p want st s with
  | Ok _ st' _ | OkWithErr _ _ st' _ | Err _ st' _ => st' <= buf_bound
  | Crash _ | OutOfFuel => False
  end.
Proof.
  intros p want st s Hst. destruct (recv_cases cfg_fixed p want st s Hst eq_refl) as [[-> ->]|[_ C]]; [exact Hst|].
  unfold consumed in C. destruct (recv cfg_fixed p want st s); try contradiction; tauto.
Qed.

Lemma hdr_progress p want : progress_ok (recv cfg_fixed p want) (fun st => st <= buf_bound).
Proof.
  intros st s Hst. destruct (recv_cases cfg_fixed p want st s Hst eq_refl) as [[-> ->]|[_ C]].
  - split; auto. right. split; auto. exists st. rewrite recv_nil. auto.
  - unfold consumed in C. destruct (recv cfg_fixed p want st s); try contradiction; destruct C; auto.
Qed.

(* the whole sequence of Recv calls on any stream: no panic, no fuel exhaustion *)
Theorem hdr_recv_all_clean : forall p want st s, st <= buf_bound -> clean (recv_all cfg_fixed p want st s).
Proof.
  intros p want st s Hst. unfold recv_all.
  apply (recv_all_clean _ (fun st => st <= buf_bound)); auto. apply hdr_progress.
Qed.

Theorem hdr_exhausted : forall c p want st,
  recv c p want st [] = Err EEOF st [] /\ recv_all c p want st [] = [IErr EEOF].
Proof.
  intros c p want st. split; [apply recv_nil|].
  unfold recv_all, recv_all_from. cbn [length recv_all_loop]. rewrite recv_nil.
  cbn [same_as_prev]. rewrite recv_nil. cbn. reflexivity.
Qed.

(* F5: before the fix an absurd Content-Length panicked in make *)
Definition cfg_without_F5 : cfg := {| fix_F5 := false; fix_F6 := true |}.

(* "Content-Length: 9223372036854775807" CR LF CR LF   and   "Content-Length: 4611686018427387904" CR LF CR LF abc *)
Definition stream_maxint : bytes :=
  s_content_length_hdr ++ [57;50;50;51;51;55;50;48;51;54;56;53;52;55;55;53;56;48;55] ++ crlf ++ crlf.
Definition stream_2p62 : bytes :=
  s_content_length_hdr ++ [52;54;49;49;54;56;54;48;49;56;52;50;55;51;56;55;57;48;52] ++ crlf ++ crlf ++ [97;98;99].

Lemma hdr_refuted_without_F5 :
  recv cfg_without_F5 Strict [] 0 stream_maxint = Crash MakeSliceRange /\
  recv cfg_without_F5 Optional lsp_mime 0 stream_2p62 = Crash MakeSliceRange /\
  recv cfg_fixed Strict [] 0 stream_maxint = Err EEOF 0 [] /\
  recv cfg_fixed Optional lsp_mime 0 stream_2p62 = Err EUnexpectedEOF 0 [].
Proof. vm_compute. auto. Qed.

(* ---- C12: truncation --------------------------------------------------------------- *)

Lemma same_as_prev_not_err prev it :
  (forall e, prev <> Some (IErr e)) -> same_as_prev prev it = false.
Proof.
  intros H. unfold same_as_prev. destruct it; auto. destruct prev as [q|]; auto.
  destruct (item_eqb q (IErr e)) eqn:E; auto. apply item_eqb_eq in E. subst. exfalso. eapply H; eauto.
Qed.

(* complete records followed by anything: the records come out first *)
Lemma recv_all_loop_records p mt : usable_mime mt = true ->
  forall rs st fuel prev tail,
  st <= buf_bound -> Forall (fun r => (Z.of_nat (length r) <= max_int)%Z) rs ->
  (forall e, prev <> Some (IErr e)) ->
  exists st' prev', st' <= buf_bound /\ (forall e, prev' <> Some (IErr e)) /\
    recv_all_loop (recv cfg_fixed p mt) (length rs + fuel) prev st (concat (map (enc mt) rs) ++ tail)
    = map IRec rs ++ recv_all_loop (recv cfg_fixed p mt) fuel prev' st' tail.
Proof.
  intros Hu. induction rs as [|r rs IH]; intros st fuel prev tail Hst Hrs Hp.
  - exists st, prev. auto.
  - inversion Hrs as [|? ? Hr Hrs']; subst. cbn [map concat length Nat.add]. rewrite <- app_assoc.
    destruct (recv_enc_ok p mt st r (concat (map (enc mt) rs) ++ tail) Hu Hr Hst) as [st1 [E Hst1]].
    cbn [recv_all_loop]. rewrite E.
    destruct (IH st1 fuel (Some (IRec r)) tail Hst1 Hrs') as [st' [prev' [H1 [H2 H3]]]]; [congruence|].
    exists st', prev'. split; auto. split; auto. cbn [app]. f_equal. exact H3.
Qed.

(* a stream cut inside the payload of its last record: the complete records, then an error
   without any payload bytes (io.ErrUnexpectedEOF; io.EOF if the cut is right after the header) *)
Theorem hdr_truncation_payload : forall p mt rs r a b st,
  usable_mime mt = true -> st <= buf_bound ->
  Forall (fun r => (Z.of_nat (length r) <= max_int)%Z) rs -> (Z.of_nat (length r) <= max_int)%Z ->
  r = a ++ b -> b <> [] ->
  recv_all cfg_fixed p mt st (concat (map (enc mt) rs) ++ enc_hdr mt (N.of_nat (length r)) ++ a)
  = map IRec rs ++ match a with [] => [IErr EEOF] | _ => [IErr EUnexpectedEOF; IErr EEOF] end.
Proof.
  intros p mt rs r a b st Hu Hst Hrs Hr -> Hb.
  unfold recv_all, recv_all_from.
  set (tail := enc_hdr mt (N.of_nat (length (a ++ b))) ++ a).
  assert (Hfuel : exists k, S (S (length (concat (map (enc mt) rs) ++ tail))) = (length rs + S (S (S k)))%nat).
  { assert (length rs <= length (concat (map (enc mt) rs)))%nat.
    { clear. induction rs as [|x rs IH]; cbn; auto. rewrite app_length.
      pose proof (enc_nonempty mt x). destruct (enc mt x); [congruence|]. cbn. lia. }
    pose proof (enc_hdr_length mt (N.of_nat (length (a ++ b)))).
    exists (length (concat (map (enc mt) rs)) - length rs + (length tail - 1))%nat.
    rewrite app_length. unfold tail. rewrite app_length. lia. }
  destruct Hfuel as [k ->].
  destruct (recv_all_loop_records p mt Hu rs st (S (S (S k))) None tail Hst Hrs) as [st' [prev' [Hst' [Hp' ->]]]];
    [congruence|].
  f_equal. unfold tail.
  destruct (recv_enc_hdr mt st' (N.of_nat (length (a ++ b))) a Hu) as [st2 [Hst2 E]]; auto; [lia|].
  assert (Hshort : take_n (N.of_nat (length (a ++ b))) a = (a, [], false)).
  { apply take_n_short. rewrite app_length. destruct b; [congruence|]. cbn [length]. lia. }
  unfold body_outcome in E. rewrite Hshort in E.
  cbn [recv_all_loop].
  destruct a as [|a0 a'].
  - rewrite (recv_of_strict_err _ _ _ _ _ _ _ _ E). rewrite same_as_prev_not_err by assumption.
    rewrite recv_nil. cbn. reflexivity.
  - rewrite (recv_of_strict_err _ _ _ _ _ _ _ _ E). rewrite same_as_prev_not_err by assumption.
    rewrite recv_nil. cbn [same_as_prev item_eqb errkind_eqb]. rewrite recv_nil. cbn. reflexivity.
Qed.

Example hdr_truncation_nonvacuous :
  recv_all cfg_fixed Optional lsp_mime 0 (enc lsp_mime [120] ++ enc_hdr lsp_mime 3 ++ [97; 98])
  = [IRec [120]; IErr EUnexpectedEOF; IErr EEOF] /\
  recv_all cfg_fixed Strict [] 0 (enc_hdr [] 3) = [IErr EEOF].
Proof. vm_compute. auto. Qed.

(* ---- C12: truncation anywhere inside a record (header block or payload) ---------------- *)

Lemma hdr_loop_nil f ct cl : hdr_loop (S f) ct cl [] = HErr EEOF [].
Proof. rewrite hdr_loop_S. reflexivity. Qed.

Lemma trim_right_crlf_head c q : is_crlf c = false -> is_nil (trim_right_crlf (c :: q)) = false.
Proof. intros H. cbn. destruct (trim_right_crlf q); [rewrite H|]; reflexivity. Qed.

(* an unterminated, non-blank last line: an error (invalid header line, or io.EOF on the next read) *)
Lemma hdr_loop_partial f ct cl c q :
  ~ In 10 (c :: q) -> is_crlf c = false -> exists e, hdr_loop (S (S f)) ct cl (c :: q) = HErr e [].
Proof.
  intros Hn Hc. rewrite hdr_loop_S. rewrite read_string_nodelim by assumption.
  cbn [negb andb is_nil]. rewrite trim_right_crlf_head by assumption.
  destruct (split_colon _) as [[name value]|]; [|eauto].
  destruct (beq _ _); [rewrite hdr_loop_nil; eauto|]. destruct (beq _ _); rewrite hdr_loop_nil; eauto.
Qed.

(* a header line  b CR LF  followed by X, cut at some point: either the cut is inside the line (error),
   or the line is complete and the cut is in X *)
Lemma hdr_loop_cut_line f ct cl c0 b' X pre l :
  is_crlf c0 = false -> ~ In 10 (c0 :: b') ->
  ((c0 :: b') ++ [13; 10]) ++ X = pre ++ l -> l <> [] -> pre <> [] -> (length pre < f)%nat ->
  (exists e, hdr_loop f ct cl pre = HErr e []) \/
  (exists pre', pre = ((c0 :: b') ++ [13; 10]) ++ pre' /\ X = pre' ++ l).
Proof.
  intros Hc Hn E Hl Hp Hf. apply app_eq_app in E. destruct E as [m [[E1 E2]|[E1 E2]]].
  - destruct m as [|m0 m'] eqn:Em.
    + right. exists []. rewrite app_nil_r in E1. rewrite app_nil_r. cbn in E2. subst. auto.
    + left. rewrite <- Em in *. assert (Hm : m <> []) by (subst; discriminate).
      rewrite (app_removelast_last 0 Hm) in E1.
      replace ((c0 :: b') ++ [13; 10]) with (((c0 :: b') ++ [13]) ++ [10]) in E1 by (rewrite <- app_assoc; reflexivity).
      rewrite app_assoc in E1. apply app_inj_tail in E1. destruct E1 as [E1 _].
      assert (Hnp : ~ In 10 pre).
      { intros Hx. assert (Hy : In 10 ((c0 :: b') ++ [13])) by (rewrite E1; apply in_or_app; now left).
        apply in_app_or in Hy. destruct Hy as [Hy|[Hy|[]]]; [auto|discriminate]. }
      destruct pre as [|x q]; [congruence|]. cbn in E1. inversion E1; subst x.
      destruct f as [|[|f']]; cbn [length] in Hf; try lia.
      now apply hdr_loop_partial.
  - right. exists m. auto.
Qed.

(* the Content-Length line and the blank line, cut *)
Lemma cut_cl f ct n pre l :
  (length pre < f)%nat -> s_content_length_hdr ++ itoa n ++ crlf ++ crlf = pre ++ l -> l <> [] ->
  (exists e, hdr_loop f ct [] pre = HErr e []) \/
  (l = [10] /\ hdr_loop f ct [] pre = HDone ct (itoa n) []).
Proof.
  intros Hf E Hl. destruct pre as [|p0 pre'] eqn:Ep.
  { left. destruct f; [cbn in Hf; lia|]. rewrite hdr_loop_nil. eauto. }
  rewrite <- Ep in *. assert (Hp : pre <> []) by (subst; discriminate).
  assert (E' : ((67 :: [111; 110; 116; 101; 110; 116; 45; 76; 101; 110; 103; 116; 104] ++ 58 :: 32 :: itoa n) ++ [13; 10]) ++ crlf
               = pre ++ l).
  { rewrite <- E. rewrite <- !app_assoc. reflexivity. }
  assert (Hn10 : ~ In 10 (67 :: [111; 110; 116; 101; 110; 116; 45; 76; 101; 110; 103; 116; 104] ++ 58 :: 32 :: itoa n)).
  { intros [H|H]; [discriminate|]. apply in_app_or in H. destruct H as [H|[H|[H|H]]];
      [revert H; apply mem_false; reflexivity | discriminate | discriminate | exact (itoa_no_lf n H)]. }
  destruct (hdr_loop_cut_line f ct [] 67 _ crlf pre l (eq_refl : is_crlf 67 = false) Hn10
              E' Hl Hp Hf) as [Herr|[pre2 [E1 E2]]]; [now left|].
  assert (Hstep : hdr_loop f ct [] pre = hdr_loop (pred f) ct (itoa n) pre2).
  { destruct f; [lia|]. rewrite E1. cbn [pred].
    rewrite <- (hdr_loop_clen f ct [] n pre2). f_equal. rewrite <- !app_assoc. reflexivity. }
  rewrite Hstep.
  assert (Hf2 : (2 <= pred f)%nat).
  { rewrite E1 in Hf. rewrite !app_length in Hf. cbn [length] in Hf. lia. }
  destruct (pred f) as [|[|f2]]; try lia.
  destruct pre2 as [|x [|y pre3]].
  - left. rewrite hdr_loop_nil. eauto.
  - cbn in E2. inversion E2; subst. right. split; [reflexivity|]. rewrite hdr_loop_S. reflexivity.
  - cbn in E2. inversion E2 as [[Hx Hy Hz]]. destruct pre3; cbn in Hz; [subst l; congruence | discriminate].
Qed.

(* the whole header block, cut strictly inside *)
Lemma cut_hdr f mt n pre l :
  usable_mime mt = true -> (length pre < f)%nat -> enc_hdr mt n = pre ++ l -> l <> [] ->
  (exists e, hdr_loop f [] [] pre = HErr e []) \/
  (l = [10] /\ hdr_loop f [] [] pre = HDone mt (itoa n) []).
Proof.
  intros Hu Hf E Hl. destruct (usable_mime_spec _ Hu) as [Ht Hlf]. unfold enc_hdr in E.
  destruct mt as [|m0 mt'] eqn:Emt.
  - cbn [app] in E. now apply cut_cl.
  - rewrite <- Emt in *. assert (Hmt : mt <> []) by (subst; discriminate).
    destruct pre as [|p0 pre'] eqn:Ep.
    { left. destruct f; [cbn in Hf; lia|]. rewrite hdr_loop_nil. eauto. }
    rewrite <- Ep in *. assert (Hp : pre <> []) by (subst pre; discriminate).
    assert (E' : ((67 :: [111; 110; 116; 101; 110; 116; 45; 84; 121; 112; 101] ++ 58 :: 32 :: mt) ++ [13; 10])
                 ++ (s_content_length_hdr ++ itoa n ++ crlf ++ crlf) = pre ++ l).
    { rewrite <- E. rewrite <- !app_assoc. reflexivity. }
    assert (Hn10 : ~ In 10 (67 :: [111; 110; 116; 101; 110; 116; 45; 84; 121; 112; 101] ++ 58 :: 32 :: mt)).
    { intros [H|H]; [discriminate|]. apply in_app_or in H. destruct H as [H|[H|[H|H]]];
        [revert H; apply mem_false; reflexivity | discriminate | discriminate | exact (Hlf H)]. }
    destruct (hdr_loop_cut_line f [] [] 67 _ (s_content_length_hdr ++ itoa n ++ crlf ++ crlf) pre l
                (eq_refl : is_crlf 67 = false) Hn10 E' Hl Hp Hf) as [Herr|[pre1 [E1 E2]]]; [now left|].
    assert (Hstep : hdr_loop f [] [] pre = hdr_loop (pred f) mt [] pre1).
    { destruct f; [lia|]. rewrite E1. cbn [pred].
      rewrite <- (hdr_loop_ctype f [] [] mt pre1 Hmt Ht Hlf). f_equal. rewrite <- !app_assoc. reflexivity. }
    rewrite Hstep. apply cut_cl; auto.
    rewrite E1 in Hf. rewrite !app_length in Hf. cbn [length] in Hf. lia.
Qed.

(* one Recv on a record cut anywhere: an error and no bytes - except that a complete header of an
   EMPTY record that lacks only its very last LF yields that (complete, empty) record *)
Lemma recv_cut p mt r pre suf st :
  usable_mime mt = true -> (Z.of_nat (length r) <= max_int)%Z -> st <= buf_bound ->
  enc mt r = pre ++ suf -> suf <> [] ->
  (exists e st', st' <= buf_bound /\ recv cfg_fixed p mt st pre = Err e st' []) \/
  (r = [] /\ suf = [10] /\ exists st', st' <= buf_bound /\ recv cfg_fixed p mt st pre = Ok [] st' []).
Proof.
  intros Hu Hr Hst E Hs. unfold enc in E. apply app_eq_app in E.
  assert (Payload : forall a, pre = enc_hdr mt (N.of_nat (length r)) ++ a -> r = a ++ suf ->
            exists e st', st' <= buf_bound /\ recv cfg_fixed p mt st pre = Err e st' []).
  { intros a -> Er.
    destruct (recv_enc_hdr mt st (N.of_nat (length r)) a Hu) as [st2 [Hst2 E2]]; auto; [lia|].
    assert (Hshort : take_n (N.of_nat (length r)) a = (a, [], false)).
    { apply take_n_short. rewrite Er, app_length. destruct suf; [congruence|]. cbn [length]. lia. }
    unfold body_outcome in E2. rewrite Hshort in E2.
    destruct a; eexists _, st2; (split; [exact Hst2|]); apply recv_of_strict_err; exact E2. }
  destruct E as [m [[E1 E2]|[E1 E2]]].
  - destruct m as [|m0 m'] eqn:Em.
    + left. apply (Payload []); [now rewrite app_nil_r in *|]. now cbn in E2.
    + rewrite <- Em in *. assert (Hm : m <> []) by (subst; discriminate).
      destruct (cut_hdr (S (length pre)) mt (N.of_nat (length r)) pre m Hu (le_n _) E1 Hm) as [[e He]|[-> Hd]].
      * left. exists e, st. split; auto. apply recv_of_strict_err. rewrite recv_strict_unfold, He. reflexivity.
      * destruct (itoa_spec (N.of_nat (length r))) as [Hne _].
        destruct (recv_body_valid mt mt (itoa (N.of_nat (length r))) st [] (Z.of_N (N.of_nat (length r))))
          as [st' [Hst' Hb]]; auto; [apply atoi_itoa; lia | lia|].
        rewrite N2Z.id, beq_refl in Hb. unfold body_outcome in Hb.
        destruct r as [|r0 r'].
        -- right. split; auto. split; [now rewrite E2|]. exists st'. split; auto.
           apply recv_of_strict_ok. rewrite recv_strict_unfold, Hd, Hb. reflexivity.
        -- left. exists EEOF, st'. split; auto.
           apply recv_of_strict_err. rewrite recv_strict_unfold, Hd, Hb.
           rewrite take_n_short by (cbn [length]; lia). reflexivity.
  - left. now apply (Payload m).
Qed.

(* what is observed after an error that consumed the rest of the stream *)
Definition err_tail (e : errkind) : list item :=
  IErr e :: if errkind_eqb e EEOF then [] else [IErr EEOF].

(* C12 truncation, header framings: a valid frame sequence cut anywhere INSIDE a record (in its
   header block or in its payload).  The complete records come out first; the cut record gives an
   error and NO bytes.  Single exception, stated exactly: when the record is empty and only the
   final LF of its header block is missing, that (complete, empty) record is returned. *)
Theorem hdr_truncation : forall p mt rs r pre suf st,
  usable_mime mt = true -> st <= buf_bound ->
  Forall (fun r => (Z.of_nat (length r) <= max_int)%Z) rs -> (Z.of_nat (length r) <= max_int)%Z ->
  enc mt r = pre ++ suf -> pre <> [] -> suf <> [] ->
  exists tail,
    recv_all cfg_fixed p mt st (concat (map (enc mt) rs) ++ pre) = map IRec rs ++ tail /\
    ((exists e, tail = err_tail e) \/ (r = [] /\ suf = [10] /\ tail = [IRec []; IErr EEOF])).
Proof.
  intros p mt rs r pre suf st Hu Hst Hrs Hr E Hp Hs.
  unfold recv_all, recv_all_from.
  assert (Hfuel : exists k, S (S (length (concat (map (enc mt) rs) ++ pre))) = (length rs + S (S (S k)))%nat).
  { assert (length rs <= length (concat (map (enc mt) rs)))%nat.
    { clear. induction rs as [|x rs IH]; cbn; auto. rewrite app_length.
      pose proof (enc_nonempty mt x). destruct (enc mt x); [congruence|]. cbn. lia. }
    exists (length (concat (map (enc mt) rs)) - length rs + (length pre - 1))%nat.
    rewrite app_length. destruct pre; [congruence|]. cbn [length]. lia. }
  destruct Hfuel as [k ->].
  destruct (recv_all_loop_records p mt Hu rs st (S (S (S k))) None pre Hst Hrs) as [st' [prev' [Hst' [Hp' ->]]]];
    [congruence|].
  destruct (recv_cut p mt r pre suf st' Hu Hr Hst' E Hs) as [[e [st2 [Hst2 Er]]]|[-> [-> [st2 [Hst2 Er]]]]].
  - exists (err_tail e). split; [|left; eauto]. f_equal.
    cbn [recv_all_loop]. rewrite Er. rewrite same_as_prev_not_err by assumption.
    rewrite recv_nil. unfold err_tail. cbn [same_as_prev item_eqb].
    destruct (errkind_eqb e EEOF); [reflexivity|]. rewrite recv_nil. cbn. reflexivity.
  - exists [IRec []; IErr EEOF]. split; [|right; auto]. f_equal.
    cbn [recv_all_loop]. rewrite Er. rewrite recv_nil. cbn [same_as_prev]. rewrite recv_nil. cbn. reflexivity.
Qed.

Example hdr_truncation_header_nonvacuous :
  (* "Content-Length: 3" CR | LF CR LF abc : cut inside the header block *)
  enc [] [97; 98; 99] = (s_content_length_hdr ++ [51; 13]) ++ ([10; 13; 10; 97; 98; 99]) /\
  recv_all cfg_fixed Strict [] 0 (enc [] [120] ++ s_content_length_hdr ++ [51; 13]) = [IRec [120]; IErr EEOF] /\
  (* "Content-Len" : invalid header line, then EOF *)
  recv_all cfg_fixed Strict [] 0 [67; 111; 110; 116; 101; 110; 116; 45; 76; 101; 110] = err_tail EInvalidHeader /\
  (* the exception: empty record, last LF missing *)
  recv_all cfg_fixed Strict [] 0 (s_content_length_hdr ++ [48; 13; 10; 13]) = [IRec []; IErr EEOF].
Proof. vm_compute. auto. Qed.
