(* HdrProofs: C11 (round trip with buffer-state threading) and the no-crash part of C12
   for the header framings (model: Hdr.v).  Soundness against the reference grammar and
   the truncation theorem are in HdrSpecProofs.v. *)
From Coq Require Import List NArith ZArith Bool Lia Arith.
From JV Require Import Bytes FrameBase FrameBaseProofs Hdr.
Import ListNotations.
Local Open Scope N_scope.

(* ---- strings -------------------------------------------------------------- *)

Lemma trim_right_crlf_snoc l c : is_crlf c = false -> trim_right_crlf (l ++ [c]) = l ++ [c].
Proof.
  intros Hc. induction l as [|x l IH]; cbn.
  - now rewrite Hc.
  - rewrite IH. destruct (l ++ [c]) eqn:E; [destruct l; discriminate|reflexivity].
Qed.

Lemma trim_right_crlf_app_crlf l t :
  Forall (fun c => is_crlf c = true) t -> trim_right_crlf (l ++ t) = trim_right_crlf l.
Proof.
  intros Ht. assert (Hn : trim_right_crlf t = []).
  { induction Ht as [|c t Hc _ IH]; cbn; auto. now rewrite IH, Hc. }
  induction l as [|x l IH]; cbn; [exact Hn|]. now rewrite IH.
Qed.

Lemma trim_right_crlf_spec s :
  exists t, s = trim_right_crlf s ++ t /\ Forall (fun c => is_crlf c = true) t /\
            (forall l' c, trim_right_crlf s = l' ++ [c] -> is_crlf c = false).
Proof.
  induction s as [|x s [t [Hs [Ht Hl]]]].
  - exists []. cbn. repeat split; auto. intros [|? ?] c H; discriminate.
  - cbn. destruct (trim_right_crlf s) as [|y l] eqn:E.
    + destruct (is_crlf x) eqn:Hx.
      * exists (x :: t). cbn in *. repeat split; [now f_equal | constructor; auto |].
        intros [|? ?] c H; discriminate.
      * exists t. cbn in *. repeat split; [now f_equal | auto |].
        intros l' c H. destruct l' as [|? [|? ?]]; inversion H; subst; auto.
    + exists t. repeat split; [cbn; now f_equal | auto |].
      intros l' c H. destruct l' as [|z l'].
      * discriminate.
      * inversion H; subst. eapply Hl. eauto.
Qed.

Lemma split_colon_found name v : ~ In 58 name -> split_colon (name ++ 58 :: v) = Some (name, v).
Proof.
  induction name as [|c n IH]; intros Hn; cbn; auto.
  destruct (N.eqb_spec c 58) as [->|Hc]; [exfalso; apply Hn; now left|].
  rewrite IH; auto. intros Hx. apply Hn. now right.
Qed.

Lemma split_colon_spec s name v : split_colon s = Some (name, v) -> s = name ++ 58 :: v /\ ~ In 58 name.
Proof.
  revert name v. induction s as [|c s IH]; intros name v H; cbn in H; [discriminate|].
  destruct (N.eqb_spec c 58) as [->|Hc].
  - inversion H; subst. split; auto.
  - destruct (split_colon s) as [[a b]|] eqn:E; [|discriminate]. inversion H; subst.
    destruct (IH _ _ eq_refl) as [-> Hn]. split; auto. intros [Hx|Hx]; auto.
Qed.

Lemma split_colon_none s : split_colon s = None <-> ~ In 58 s.
Proof.
  induction s as [|c s IH]; cbn; [split; auto|].
  destruct (N.eqb_spec c 58) as [->|Hc].
  - split; [discriminate|]. intros H. exfalso. apply H. now left.
  - destruct (split_colon s) as [[a b]|] eqn:E.
    + split; [discriminate|]. intros H. assert (Hs : ~ In 58 s) by tauto. apply IH in Hs. discriminate.
    + split; auto. intros _ [Hx|Hx]; [congruence|]. exact (proj1 IH eq_refl Hx).
Qed.

(* a string that starts with an ASCII byte that is not white space is not trimmed at the front *)
Lemma trim_front_noop rv c s : c < 128 -> ascii_space c = false -> trim_front rv (c :: s) = c :: s.
Proof.
  intros Hc Hs. cbn [trim_front]. rewrite Hs.
  destruct s as [|c2 s2]; auto.
  assert (H2 : (if rv then ws2 c2 c else ws2 c c2) = false).
  { unfold ws2. destruct rv;
      [destruct (N.eqb_spec c 133), (N.eqb_spec c 160) | destruct (N.eqb_spec c 194)];
      try lia; cbn; rewrite ?andb_false_r; reflexivity. }
  rewrite H2. destruct s2 as [|c3 s3]; auto.
  assert (H3 : (if rv then ws3 c3 c2 c else ws3 c c2 c3) = false).
  { unfold ws3. destruct rv;
      [destruct (N.eqb_spec c 128), (N.eqb_spec c 168), (N.eqb_spec c 169), (N.eqb_spec c 175),
         (N.eqb_spec c 159), (N.leb_spec 128 c)
      | destruct (N.eqb_spec c 225), (N.eqb_spec c 226), (N.eqb_spec c 227)];
      try lia; cbn; rewrite ?andb_false_r; reflexivity. }
  now rewrite H3.
Qed.

Definition plain_byte (c : N) : Prop := c < 128 /\ ascii_space c = false.

(* a string that starts and ends with plain (ASCII, non-space) bytes is its own TrimSpace *)
Lemma trim_space_plain s x y t :
  s = x :: t -> rev s = y :: rev (removelast s) -> plain_byte x -> plain_byte y -> trim_space s = s.
Proof.
  intros Hs Hr [Hx1 Hx2] [Hy1 Hy2]. unfold trim_space.
  rewrite Hs at 1. rewrite trim_front_noop by assumption. rewrite <- Hs.
  rewrite Hr. rewrite trim_front_noop by assumption. rewrite <- Hr. apply rev_involutive.
Qed.

Lemma rev_last_cons (s : bytes) : s <> [] -> rev s = last s 0 :: rev (removelast s).
Proof.
  intros Hs. rewrite (app_removelast_last 0 Hs) at 1. now rewrite rev_app_distr.
Qed.

Lemma trim_space_plain_ends s :
  s <> [] -> plain_byte (hd 0 s) -> plain_byte (last s 0) -> trim_space s = s.
Proof.
  intros Hs Hh Hl. destruct s as [|x t]; [congruence|].
  eapply trim_space_plain; eauto. now apply rev_last_cons.
Qed.

(* leading spaces are trimmed *)
Lemma trim_space_space s : trim_space (32 :: s) = trim_space s.
Proof. reflexivity. Qed.

(* ---- numbers -------------------------------------------------------------- *)

Lemma digits_val_app ds1 ds2 acc :
  digits_val (ds1 ++ ds2) acc = match digits_val ds1 acc with Some a => digits_val ds2 a | None => None end.
Proof.
  revert acc. induction ds1 as [|c ds IH]; intros acc; cbn; auto.
  destruct (is_digit c); auto.
Qed.

Lemma is_digit_of_lt n : n < 10 -> is_digit (48 + n) = true.
Proof.
  intros H. unfold is_digit. destruct (N.leb_spec 48 (48 + n)), (N.leb_spec (48 + n) 57); auto; lia.
Qed.

(* itoa_aux prepends the decimal digits of n *)
Lemma itoa_aux_S f n acc :
  itoa_aux (S f) n acc =
  if n <? 10 then (48 + n mod 10) :: acc else itoa_aux f (n / 10) ((48 + n mod 10) :: acc).
Proof. reflexivity. Qed.

Lemma itoa_aux_spec : forall fuel n acc,
  n < 2 ^ N.of_nat fuel ->
  exists ds, itoa_aux (S fuel) n acc = ds ++ acc /\ ds <> [] /\
             Forall (fun c => is_digit c = true) ds /\
             (forall a, digits_val ds a = Some (a * 10 ^ N.of_nat (length ds) + n)).
Proof.
  induction fuel as [|f IH]; intros n acc Hn; rewrite itoa_aux_S.
  - cbn in Hn. assert (n = 0) by lia. subst. cbn.
    exists [48]. split; [reflexivity|]. split; [discriminate|]. split; [repeat constructor|].
    intros a; cbn; f_equal; lia.
  - destruct (N.ltb_spec n 10) as [Hlt|Hge].
    + exists [48 + n mod 10]. rewrite N.mod_small by assumption.
      split; [reflexivity|]. split; [discriminate|]. split.
      * constructor; [now apply is_digit_of_lt|constructor].
      * intros a. cbn [digits_val]. rewrite is_digit_of_lt by assumption. f_equal.
        cbn [length]. replace (N.of_nat 1) with 1 by reflexivity. lia.
    + assert (Hd : n / 10 < 2 ^ N.of_nat f).
      { apply N.div_lt_upper_bound; [lia|].
        rewrite Nat2N.inj_succ, N.pow_succ_r' in Hn. lia. }
      destruct (IH (n / 10) ((48 + n mod 10) :: acc) Hd) as [ds [E [Hne [Hall Hv]]]].
      rewrite E.
      exists (ds ++ [48 + n mod 10]). rewrite <- app_assoc.
      split; [reflexivity|]. split; [|split].
      * destruct ds; discriminate.
      * apply Forall_app. split; auto. constructor; [|constructor].
        apply is_digit_of_lt. apply N.mod_lt. lia.
      * intros a. rewrite digits_val_app, Hv. cbn [digits_val].
        rewrite is_digit_of_lt by (apply N.mod_lt; lia). f_equal.
        rewrite app_length. cbn [length]. rewrite Nat.add_1_r, Nat2N.inj_succ, N.pow_succ_r'.
        assert (Hdm : n = 10 * (n / 10) + n mod 10) by (apply N.div_mod; lia).
        remember (10 ^ N.of_nat (length ds)) as X. remember (n / 10) as q. remember (n mod 10) as m.
        lia.
Qed.

Lemma itoa_spec n :
  itoa n <> [] /\ Forall (fun c => is_digit c = true) (itoa n) /\ digits_val (itoa n) 0 = Some n.
Proof.
  unfold itoa.
  destruct (itoa_aux_spec (N.to_nat (N.size n)) n []) as [ds [E [Hne [Hall Hv]]]].
  - rewrite N2Nat.id. pose proof (N.size_gt n). lia.
  - rewrite E, app_nil_r. split; [assumption|]. split; [assumption|]. rewrite Hv. f_equal. lia.
Qed.

Lemma is_digit_range c : is_digit c = true -> 48 <= c <= 57.
Proof.
  unfold is_digit. destruct (N.leb_spec 48 c), (N.leb_spec c 57); cbn; try discriminate. lia.
Qed.

Lemma digit_plain c : is_digit c = true -> plain_byte c.
Proof.
  intros H. apply is_digit_range in H. split; [lia|].
  unfold ascii_space.
  destruct (N.eqb_spec c 9), (N.eqb_spec c 10), (N.eqb_spec c 11), (N.eqb_spec c 12),
    (N.eqb_spec c 13), (N.eqb_spec c 32); try lia. reflexivity.
Qed.

Lemma atoi_digits ds n :
  ds <> [] -> Forall (fun c => is_digit c = true) ds -> digits_val ds 0 = Some n ->
  (Z.of_N n <= max_int)%Z -> atoi ds = Some (Z.of_N n).
Proof.
  intros Hne Hall Hv Hmax. unfold atoi.
  destruct ds as [|c r]; [congruence|].
  inversion Hall as [|? ? Hc _]; subst. apply is_digit_range in Hc.
  destruct (N.eqb_spec c 43); [lia|]. destruct (N.eqb_spec c 45); [lia|].
  rewrite Hv. unfold min_int, max_int in *.
  destruct (Z.ltb_spec (Z.of_N n) (-9223372036854775808)); [lia|].
  destruct (Z.ltb_spec 9223372036854775807 (Z.of_N n)); [lia|]. reflexivity.
Qed.

Lemma atoi_itoa n : (Z.of_N n <= max_int)%Z -> atoi (itoa n) = Some (Z.of_N n).
Proof.
  intros H. destruct (itoa_spec n) as [Hne [Hall Hv]]. now apply atoi_digits.
Qed.

Lemma trim_space_itoa n : trim_space (itoa n) = itoa n.
Proof.
  destruct (itoa_spec n) as [Hne [Hall _]].
  apply trim_space_plain_ends; auto.
  - destruct (itoa n) as [|c r]; [congruence|]. inversion Hall; subst. now apply digit_plain.
  - apply digit_plain. rewrite Forall_forall in Hall. apply Hall.
    rewrite (app_removelast_last 0 Hne) at 2. apply in_or_app. right. now left.
Qed.

Lemma itoa_no_lf n : ~ In 10 (itoa n).
Proof.
  destruct (itoa_spec n) as [_ [Hall _]]. rewrite Forall_forall in Hall.
  intros H. apply Hall in H. discriminate.
Qed.

Lemma itoa_last_not_crlf n l c : itoa n = l ++ [c] -> is_crlf c = false.
Proof.
  intros E. destruct (itoa_spec n) as [_ [Hall _]]. rewrite Forall_forall in Hall.
  assert (Hc : is_digit c = true) by (apply Hall; rewrite E; apply in_or_app; right; now left).
  apply is_digit_range in Hc. unfold is_crlf.
  destruct (N.eqb_spec c 13), (N.eqb_spec c 10); try lia. reflexivity.
Qed.
