(* RawJsonMore: further C11/C12 facts about the RawJSON framing (model RawJson.v over JsonScan.v):
   errors are sticky from the call that produced them, truncation is io.ErrUnexpectedEOF (also
   inside the literals true / false / null), the number exception stated explicitly, the round
   trip extended to the literal records true / false, per-call robustness, suffix. *)
From Coq Require Import List NArith Bool Lia Arith.
From JV Require Import Bytes FrameBase FrameBaseProofs JsonScan JsonScanProofs RawJson RawJsonProofs FrameMore.
Import ListNotations.
Local Open Scope N_scope.

(* ---- errors are sticky from the start ------------------------------------------------------- *)

(* whatever error a Recv returns - io.EOF, a syntax error, io.ErrUnexpectedEOF, or an earlier
   sticky error - it becomes the decoder's state and NOTHING is consumed; hence every later Recv,
   on whatever the stream then holds, returns the same error *)
Theorem rawjson_error_sticky_from_start : forall st s e st' rest,
  recv st s = Err e st' rest ->
  st' = Some e /\ rest = s /\ forall s', recv st' s' = Err e st' s'.
Proof.
  intros st s e st' rest H. unfold recv in H.
  assert (G : st' = Some e /\ rest = s).
  { destruct st as [e0|].
    - inversion H; subst; auto.
    - destruct (skip_ws s) as [|c v]; [inversion H; subst; auto|].
      destruct (scan (c :: v)); inversion H; subst; auto. }
  destruct G as [-> ->]. auto.
Qed.

Lemma call_n_sticky : forall n e s, call_n recv n (Some e) s = Err e (Some e) s.
Proof. induction n as [|n IH]; intros e s; cbn [call_n recv]; auto. Qed.

(* the same for the n-th later call, for every n *)
Theorem rawjson_error_sticky_every_call : forall st s e st' rest,
  recv st s = Err e st' rest -> forall n, call_n recv n st s = Err e (Some e) s.
Proof.
  intros st s e st' rest H n. destruct (rawjson_error_sticky_from_start _ _ _ _ _ H) as [-> [-> _]].
  destruct n as [|n]; cbn [call_n]; rewrite H; [reflexivity | apply call_n_sticky].
Qed.

Example rawjson_error_sticky_nonvacuous :
  (* {} then a stray closing bracket: the record, then the syntax error for ever *)
  recv None [93; 123; 125] = Err EJSONSyntax (Some EJSONSyntax) [93; 123; 125] /\
  call_n recv 0 None [123; 125; 93; 123; 125] = Ok [123; 125] None [93; 123; 125] /\
  call_n recv 5 None [123; 125; 93; 123; 125] = Err EJSONSyntax (Some EJSONSyntax) [93; 123; 125].
Proof. vm_compute. auto. Qed.

(* ---- a syntax error is stable under extension ------------------------------------------------- *)

Lemma scan_str_syntax_ext : forall s st t, scan_str st s = Syntax -> scan_str st (s ++ t) = Syntax.
Proof.
  induction s as [|c s IH]; intros st t H; cbn in *; [discriminate|].
  destruct st.
  - destruct (c =? 34); [discriminate|]. destruct (c =? 92); [now apply IH|].
    destruct (c <? 32); [reflexivity|]. now apply IH.
  - destruct (is_esc1 c); [now apply IH|]. destruct (c =? 117); [now apply IH|reflexivity].
  - destruct (is_hex c); [|reflexivity]. destruct k; now apply IH.
Qed.

Lemma scan_num_syntax_ext : forall s st t, scan_num st s = Syntax -> scan_num st (s ++ t) = Syntax.
Proof.
  induction s as [|c s IH]; intros st t H.
  - cbn in H. destruct st; discriminate.
  - revert H. cbn [scan_num app].
    destruct st;
      repeat match goal with |- context [if ?b then _ else _] => destruct b end;
      intros H; try discriminate; try reflexivity; now apply IH.
Qed.

Lemma scan_lit_syntax_ext : forall l s t, scan_lit l s = Syntax -> scan_lit l (s ++ t) = Syntax.
Proof.
  induction l as [|a l IH]; intros s t H; cbn in *; [discriminate|].
  destruct s as [|c s]; [discriminate|]. cbn. destruct (c =? a); [now apply IH|reflexivity].
Qed.

Lemma syntax_ext_all : forall f,
  (forall d s, scan_value f d s = Syntax ->
     forall t f', (f <= f')%nat -> scan_value f' d (s ++ t) = Syntax) /\
  (forall d s, scan_elems f d s = Syntax ->
     forall t f', (f <= f')%nat -> scan_elems f' d (s ++ t) = Syntax) /\
  (forall d s, scan_members f d s = Syntax ->
     forall t f', (f <= f')%nat -> scan_members f' d (s ++ t) = Syntax).
Proof.
  induction f as [|f [IHv [IHe IHm]]].
  - repeat split; intros; discriminate.
  - repeat split.
    + intros d s H t f' Hf. destruct f' as [|f']; [lia|]. assert (Hf' : (f <= f')%nat) by lia.
      rewrite scan_value_S in *. destruct (skip_ws s) as [|c s'] eqn:Ews; [discriminate|].
      rewrite (skip_ws_app_cons _ _ _ t Ews).
      destruct (c =? 34); [now apply scan_str_syntax_ext|].
      destruct (c =? 123).
      { destruct (max_depth <=? d); [reflexivity|].
        destruct (skip_ws s') as [|c2 s2] eqn:E2; [discriminate|].
        rewrite (skip_ws_app_cons _ _ _ t E2).
        destruct (c2 =? 125); [discriminate|].
        change (c2 :: s2 ++ t) with ((c2 :: s2) ++ t). now apply IHm. }
      destruct (c =? 91).
      { destruct (max_depth <=? d); [reflexivity|].
        destruct (skip_ws s') as [|c2 s2] eqn:E2; [discriminate|].
        rewrite (skip_ws_app_cons _ _ _ t E2).
        destruct (c2 =? 93); [discriminate|].
        change (c2 :: s2 ++ t) with ((c2 :: s2) ++ t). now apply IHe. }
      destruct (c =? 45); [now apply scan_num_syntax_ext|].
      destruct (c =? 48); [now apply scan_num_syntax_ext|].
      destruct (is_digit19 c); [now apply scan_num_syntax_ext|].
      destruct (c =? 116); [now apply scan_lit_syntax_ext|].
      destruct (c =? 102); [now apply scan_lit_syntax_ext|].
      destruct (c =? 110); [now apply scan_lit_syntax_ext|reflexivity].
    + intros d s H t f' Hf. destruct f' as [|f']; [lia|]. assert (Hf' : (f <= f')%nat) by lia.
      rewrite scan_elems_S in *.
      destruct (scan_value f d s) as [r| | |] eqn:Ev; try discriminate.
      * destruct (skip_ws r) as [|c r'] eqn:Er; [discriminate|].
        assert (Hne : r <> []) by (intros ->; discriminate).
        rewrite (proj1 (ext_all f) d s r Ev (or_introl Hne) t f' Hf').
        rewrite (skip_ws_app_cons _ _ _ t Er).
        destruct (c =? 44); [now apply IHe|].
        destruct (c =? 93); [discriminate|reflexivity].
      * now rewrite (IHv d s Ev t f' Hf').
    + intros d s H t f' Hf. destruct f' as [|f']; [lia|]. assert (Hf' : (f <= f')%nat) by lia.
      rewrite scan_members_S in *.
      destruct (skip_ws s) as [|c s1] eqn:Ews; [discriminate|].
      rewrite (skip_ws_app_cons _ _ _ t Ews).
      destruct (c =? 34); [|reflexivity].
      destruct (scan_str SPlain s1) as [s2| | |] eqn:Es; try discriminate.
      * rewrite (scan_str_ext _ _ _ t Es).
        destruct (skip_ws s2) as [|c2 s3] eqn:E2; [discriminate|].
        rewrite (skip_ws_app_cons _ _ _ t E2).
        destruct (c2 =? 58); [|reflexivity].
        destruct (scan_value f d s3) as [s4| | |] eqn:Ev; try discriminate.
        -- destruct (skip_ws s4) as [|c3 s5] eqn:E4; [discriminate|].
           assert (Hne : s4 <> []) by (intros ->; discriminate).
           rewrite (proj1 (ext_all f) d s3 s4 Ev (or_introl Hne) t f' Hf').
           rewrite (skip_ws_app_cons _ _ _ t E4).
           destruct (c3 =? 44); [now apply IHm|].
           destruct (c3 =? 125); [discriminate|reflexivity].
        -- now rewrite (IHv d s3 Ev t f' Hf').
      * now rewrite (scan_str_syntax_ext _ _ t Es).
Qed.

Lemma scan_syntax_ext s t : scan s = Syntax -> scan (s ++ t) = Syntax.
Proof.
  intros H. unfold scan in *. apply (proj1 (syntax_ext_all _) 0 s H t).
  unfold scan_fuel. rewrite app_length. lia.
Qed.

(* ---- truncation: the error kind ------------------------------------------------------------------- *)

(* a proper non-empty prefix of a JSON object, array or string: the scanner reaches the end of
   the input inside the value *)
Lemma scan_cut_trunc r pre suf :
  json_record r = true -> r = pre ++ suf -> pre <> [] -> suf <> [] -> scan pre = Trunc.
Proof.
  intros Hr E Hp Hs.
  destruct (json_record_head r Hr) as [c [t [Er [Hc Hk]]]].
  destruct pre as [|p0 pre']; [congruence|]. assert (p0 = c) by (rewrite Er in E; now inversion E). subst p0.
  assert (Hfull : scan ((c :: pre') ++ suf) = Done []).
  { rewrite <- E. unfold json_record in Hr. rewrite Er in *. apply andb_true_iff in Hr. destruct Hr as [_ Hr].
    destruct (scan (c :: t)) as [[|]| | |]; try discriminate. reflexivity. }
  pose proof (scan_fuel_ok (c :: pre')) as P.
  destruct (scan (c :: pre')) as [rest'| | |] eqn:Esc; [| |reflexivity|contradiction]; exfalso.
  - assert (Hnn : nonnum (c :: pre')).
    { unfold nonnum. cbn [skip_ws]. rewrite Hc. unfold num_start, is_digit19.
      destruct Hk as [->|[->| ->]]; reflexivity. }
    assert (Hext : scan ((c :: pre') ++ suf) = Done (rest' ++ suf)).
    { unfold scan in *. apply (proj1 (ext_all _) 0 (c :: pre') rest' Esc (or_intror Hnn) suf).
      unfold scan_fuel. rewrite app_length. lia. }
    rewrite Hext in Hfull. inversion Hfull as [H0]. destruct rest'; [destruct suf; [congruence|discriminate]|discriminate].
  - rewrite (scan_syntax_ext _ suf Esc) in Hfull. discriminate.
Qed.

(* the literals *)
Definition j_true : bytes := 116 :: lit_rue.
Definition j_false : bytes := 102 :: lit_alse.

Lemma scan_lit_prefix : forall l t u, l = t ++ u -> u <> [] -> scan_lit l t = Trunc.
Proof.
  induction l as [|a l IH]; intros t u E Hu.
  - destruct t; [cbn in E; congruence | discriminate].
  - destruct t as [|c t]; [reflexivity|]. cbn in E. inversion E; subst. cbn [scan_lit].
    rewrite N.eqb_refl. now apply (IH t u).
Qed.

Lemma scan_head_t t : scan (116 :: t) = scan_lit lit_rue t.
Proof. reflexivity. Qed.
Lemma scan_head_f t : scan (102 :: t) = scan_lit lit_alse t.
Proof. reflexivity. Qed.
Lemma scan_head_n t : scan (110 :: t) = scan_lit lit_ull t.
Proof. reflexivity. Qed.

Lemma scan_lit_cut_trunc l pre suf :
  l = j_true \/ l = j_false \/ l = s_null ->
  l = pre ++ suf -> pre <> [] -> suf <> [] ->
  scan pre = Trunc /\ exists c t, pre = c :: t /\ is_ws c = false.
Proof.
  intros Hl E Hp Hs. destruct pre as [|c t]; [congruence|].
  destruct Hl as [-> | [-> | ->]]; cbn [app] in E; inversion E as [[Hc Ht]]; subst c.
  - split; [|exists 116, t; split; reflexivity]. rewrite scan_head_t. eapply scan_lit_prefix; eauto.
  - split; [|exists 102, t; split; reflexivity]. rewrite scan_head_f. eapply scan_lit_prefix; eauto.
  - split; [|exists 110, t; split; reflexivity]. rewrite scan_head_n. eapply scan_lit_prefix; eauto.
Qed.

(* records whose truncation is detected: objects, arrays, strings and the three literals *)
Definition truncatable (r : bytes) : Prop :=
  json_record r = true \/ r = j_true \/ r = j_false \/ r = s_null.

Lemma recv_cut_kind j r pre suf :
  all_ws j -> truncatable r -> r = pre ++ suf -> pre <> [] -> suf <> [] ->
  recv None (j ++ pre) = Err EUnexpectedEOF (Some EUnexpectedEOF) (j ++ pre).
Proof.
  intros Hj Hr E Hp Hs.
  assert (G : scan pre = Trunc /\ exists c t, pre = c :: t /\ is_ws c = false).
  { destruct Hr as [Hr|Hr].
    - split; [eapply scan_cut_trunc; eauto|].
      destruct (json_record_head r Hr) as [c [t [Er [Hc _]]]].
      destruct pre as [|p0 pre']; [congruence|]. exists p0, pre'. split; [reflexivity|].
      rewrite Er in E. inversion E; subst. exact Hc.
    - eapply scan_lit_cut_trunc; eauto. }
  destruct G as [Hsc [c [t [-> Hc]]]].
  unfold recv. rewrite skip_ws_app by assumption. cbn [skip_ws]. rewrite Hc, Hsc. reflexivity.
Qed.

(* ---- the round trip extended to the literal records true and false ------------------------------- *)

(* a record of the RawJSON framing: a JSON object, array or string, or one of the literals true,
   false - every JSON value that ends at its own last byte, except null (sent and received as the
   EMPTY record).  Numbers are excluded: they are not self-delimiting (see below). *)
Definition json_record_lit (r : bytes) : bool := json_record r || beq r j_true || beq r j_false.

Definition legal_lit (r : bytes) : Prop := r = [] \/ json_record_lit r = true.

Lemma json_record_lit_cases r : json_record_lit r = true -> json_record r = true \/ r = j_true \/ r = j_false.
Proof.
  unfold json_record_lit. intros H. apply orb_true_iff in H. destruct H as [H|H].
  - apply orb_true_iff in H. destruct H as [H|H]; [now left|]. apply beq_eq in H. auto.
  - apply beq_eq in H. auto.
Qed.

Theorem scan_self_delimiting_lit : forall r rest,
  json_record_lit r = true -> scan (r ++ rest) = Done rest.
Proof.
  intros r rest H. destruct (json_record_lit_cases r H) as [Hr|[-> | ->]].
  - now apply scan_self_delimiting.
  - reflexivity.
  - reflexivity.
Qed.

Lemma json_record_lit_head r : json_record_lit r = true ->
  exists c t, r = c :: t /\ is_ws c = false /\ is_null r = false.
Proof.
  intros H. destruct (json_record_lit_cases r H) as [Hr|[-> | ->]].
  - destruct (json_record_head r Hr) as [c [t [E [Hc _]]]]. exists c, t.
    split; [exact E|]. split; [exact Hc|]. exact (proj2 (json_record_not_null r Hr)).
  - exists 116, lit_rue. repeat split.
  - exists 102, lit_alse. repeat split.
Qed.

Lemma enc_legal_lit r : legal_lit r -> enc r = match r with [] => s_null ++ [10] | _ => r end.
Proof.
  intros [->|H]; [reflexivity|]. destruct (json_record_lit_head r H) as [c [t [-> [_ Hn]]]].
  unfold enc. rewrite Hn. reflexivity.
Qed.

Lemma recv_enc_lit j r rest :
  all_ws j -> legal_lit r ->
  exists j', recv None (j ++ enc r ++ rest) = Ok r None (j' ++ rest) /\ all_ws j'.
Proof.
  intros Hj Hl. destruct Hl as [->|H].
  - apply recv_enc; [exact Hj | now left].
  - rewrite (enc_legal_lit r (or_intror H)).
    destruct (json_record_lit_head r H) as [c [t [E [Hc Hn]]]]. subst r.
    exists []. split; [|constructor].
    pose proof (scan_self_delimiting_lit (c :: t) rest H) as Hs.
    unfold recv. rewrite skip_ws_app by assumption. cbn [app skip_ws] in *. rewrite Hc, Hs.
    change (c :: t ++ rest) with ((c :: t) ++ rest). rewrite span_before_app, Hn. reflexivity.
Qed.

Lemma enc_lit_nonempty r : legal_lit r -> enc r <> [].
Proof.
  intros Hl. rewrite (enc_legal_lit r Hl). destruct Hl as [->|H]; [discriminate|].
  destruct (json_record_lit_head r H) as [c [t [-> _]]]. discriminate.
Qed.

Theorem rawjson_round_trip_lit : forall rs,
  Forall legal_lit rs ->
  send_all send rs = Some (concat (map enc rs)) /\
  recv_all (concat (map enc rs)) = map IRec rs ++ [IErr EEOF].
Proof.
  intros rs Hrs. split.
  - apply send_all_sent. apply Forall_forall. intros r _. apply send_enc.
  - unfold recv_all.
    apply (round_trip recv enc (fun st => st = None) legal_lit all_ws); auto; [| | |constructor].
    + intros r Hl. now apply enc_lit_nonempty.
    + intros st j r rest -> Hj Hl. destruct (recv_enc_lit j r rest Hj Hl) as [j' [E Hj']].
      exists None, j'. auto.
    + intros st j -> Hj. destruct (recv_end j Hj) as [E1 E2]. exists (Some EEOF), j, (Some EEOF), j. auto.
Qed.

Example rawjson_round_trip_lit_nonvacuous :
  (* true false {} "" true : five records back to back, no separator *)
  Forall legal_lit [j_true; j_false; [123; 125]; []; j_true] /\
  recv_all (concat (map enc [j_true; j_false; [123; 125]; []; j_true]))
  = [IRec j_true; IRec j_false; IRec [123; 125]; IRec []; IRec j_true; IErr EEOF].
Proof.
  split; [|vm_compute; reflexivity].
  assert (R : forall r, json_record_lit r = true -> legal_lit r) by (intros r H; now right).
  constructor; [apply R; reflexivity|]. constructor; [apply R; reflexivity|].
  constructor; [apply R; reflexivity|]. constructor; [now left|].
  constructor; [apply R; reflexivity|]. constructor.
Qed.

(* null does NOT round trip as itself: it is the wire form of the empty record *)
Example rawjson_null_is_empty : recv_all (enc s_null) = [IRec []; IErr EEOF].
Proof. vm_compute. reflexivity. Qed.

(* ---- truncation, strengthened --------------------------------------------------------------------- *)

(* complete records (objects, arrays, strings, true, false, empty), then a proper non-empty prefix
   of an object, array, string or literal (true, false, null): the complete records, then
   io.ErrUnexpectedEOF and no (shortened) record *)
Theorem rawjson_truncation_kind : forall rs r pre suf,
  Forall legal_lit rs -> truncatable r -> r = pre ++ suf -> pre <> [] -> suf <> [] ->
  recv_all (concat (map enc rs) ++ pre) = map IRec rs ++ [IErr EUnexpectedEOF].
Proof.
  intros rs r pre suf Hrs Hr E Hp Hs. unfold recv_all, recv_all_from.
  assert (Hfuel : exists k, S (S (length (concat (map enc rs) ++ pre))) = (length rs + S (S k))%nat).
  { pose proof (concat_enc_length enc legal_lit enc_lit_nonempty rs Hrs) as Hlen.
    exists (length (concat (map enc rs)) - length rs + length pre)%nat. rewrite app_length. lia. }
  destruct Hfuel as [k ->].
  destruct (records_then_tail recv enc (fun st => st = None) legal_lit all_ws) with
    (rs := rs) (st := @None errkind) (j := @nil N) (fuel := S (S k)) (prev := @None item) (tail := pre)
    as [st' [j' [prev' [-> [Hj' [Hp' Eq]]]]]]; auto; try congruence; try constructor.
  { intros st j r0 rest -> Hj Hl. destruct (recv_enc_lit j r0 rest Hj Hl) as [j1 [E1 Hj1]]. exists None, j1. auto. }
  cbn [app] in Eq. rewrite Eq. f_equal.
  cbn [recv_all_loop]. rewrite (recv_cut_kind j' r pre suf Hj' Hr E Hp Hs).
  rewrite same_as_prev_noerr by assumption.
  cbn [recv]. cbn [same_as_prev item_eqb errkind_eqb]. reflexivity.
Qed.

Example rawjson_truncation_kind_nonvacuous :
  (* true then "fals": the record true, then io.ErrUnexpectedEOF *)
  truncatable j_false /\ j_false = [102; 97; 108; 115] ++ [101] /\
  recv_all (concat (map enc [j_true]) ++ [102; 97; 108; 115]) = [IRec j_true; IErr EUnexpectedEOF].
Proof. split; [right; right; left; reflexivity|]. split; vm_compute; reflexivity. Qed.

(* THE EXCEPTION, stated: a bare number is not self-delimiting, so a number cut off by the end of
   the stream is accepted as the shorter number (12 cut from 123), and two numbers sent back to
   back arrive as one.  This is why json_record / json_record_lit exclude numbers. *)
Example rawjson_number_truncation_accepted :
  recv_all [49; 50; 51] = [IRec [49; 50; 51]; IErr EEOF] /\
  recv_all [49; 50] = [IRec [49; 50]; IErr EEOF] /\
  recv_all ([49] ++ [50]) = [IRec [49; 50]; IErr EEOF] /\
  json_record_lit [49; 50; 51] = false.
Proof. vm_compute. auto. Qed.

(* ---- every call ------------------------------------------------------------------------------------ *)

Theorem rawjson_every_call : forall n st s,
  match call_n recv n st s with Crash _ | OutOfFuel => False | _ => True end.
Proof.
  intros n st s. pose proof (every_call_ok recv (fun _ => True) rawjson_progress n st s I) as H.
  destruct (call_n recv n st s); auto.
Qed.

Lemma recv_none_cases s :
  (exists r rest, recv None s = Ok r None rest /\ (length rest < length s)%nat) \/
  (exists e, recv None s = Err e (Some e) s).
Proof.
  pose proof (rawjson_progress None s I) as P. pose proof (rawjson_total_no_crash None s) as T.
  destruct (recv None s) as [r st' rest|r e st' rest|e st' rest|cr|] eqn:E; try contradiction.
  - left. destruct (rawjson_sound _ _ _ _ _ E) as [_ [-> _]]. exists r, rest. split; [reflexivity|]. tauto.
  - exfalso. unfold recv in E. destruct (skip_ws s) as [|c v]; [discriminate|]. destruct (scan (c :: v)); discriminate.
  - right. destruct (rawjson_error_sticky_from_start _ _ _ _ _ E) as [-> [-> _]]. eauto.
Qed.

(* RawJSON errors do not consume input, they stick: after at most |s| records the first error has
   happened, and from then on EVERY call returns that same error *)
Theorem rawjson_eventually_fails : forall n s,
  (length s <= n)%nat ->
  exists e rest, forall m, (n <= m)%nat -> call_n recv m None s = Err e (Some e) rest.
Proof.
  induction n as [|n IH]; intros s Hl.
  - destruct s; [|cbn in Hl; lia]. exists EEOF, []. intros m _.
    destruct m; cbn [call_n recv skip_ws]; [reflexivity | apply call_n_sticky].
  - destruct (recv_none_cases s) as [[r [rest [E Hlen]]]|[e E]].
    + destruct (IH rest) as [e [rest' H]]; [lia|]. exists e, rest'. intros m Hm.
      destruct m as [|m]; [lia|]. cbn [call_n]. rewrite E. apply H. lia.
    + exists e, s. intros m _. destruct m as [|m]; cbn [call_n]; rewrite E; [reflexivity | apply call_n_sticky].
Qed.

Example rawjson_every_call_nonvacuous :
  call_n recv 0 None [123; 125; 32; 91; 93] = Ok [123; 125] None [32; 91; 93] /\
  call_n recv 1 None [123; 125; 32; 91; 93] = Ok [91; 93] None [] /\
  call_n recv 2 None [123; 125; 32; 91; 93] = Err EEOF (Some EEOF) [] /\
  call_n recv 9 None [123; 125; 32; 91; 93] = Err EEOF (Some EEOF) [].
Proof. vm_compute. auto. Qed.

(* ---- the remaining stream is a suffix of the input -------------------------------------------------- *)

Theorem rawjson_rest_is_suffix : forall st s rest,
  rest_of (recv st s) = Some rest -> FrameMore.suffix rest s.
Proof.
  intros st s rest H. destruct (recv st s) as [r st' rest'|r e st' rest'|e st' rest'|cr|] eqn:E; try discriminate;
    cbn in H; inversion H; subst rest'.
  - destruct (rawjson_sound _ _ _ _ _ E) as [_ [_ [j [raw [-> _]]]]].
    rewrite app_assoc. apply suffix_app.
  - exfalso. unfold recv in E. destruct st; [discriminate|].
    destruct (skip_ws s) as [|c v]; [discriminate|]. destruct (scan (c :: v)); discriminate.
  - destruct (rawjson_error_sticky_from_start _ _ _ _ _ E) as [_ [-> _]]. apply FrameMore.suffix_refl.
Qed.

Example rawjson_rest_is_suffix_nonvacuous :
  rest_of (recv None [32; 91; 93; 49]) = Some [49] /\
  rest_of (recv None [32; 93; 49]) = Some [32; 93; 49] /\
  rest_of (recv (Some EEOF) [49]) = Some [49].
Proof. vm_compute. auto. Qed.
