(* FrameBaseProofs: facts about the bufio/io stream contracts of FrameBase.v and the
   generic round-trip / progress arguments used by every framing. *)
From Coq Require Import List NArith ZArith Bool Lia Arith.
From JV Require Import Bytes FrameBase.
Import ListNotations.
Local Open Scope N_scope.

(* ---- small helpers ------------------------------------------------------ *)

Lemma mem_spec b s : mem b s = true <-> In b s.
Proof.
  unfold mem. rewrite existsb_exists. split.
  - intros [x [Hin Hx]]. apply N.eqb_eq in Hx. now subst.
  - intros Hin. exists b. split; [assumption | apply N.eqb_refl].
Qed.

Lemma mem_false b s : mem b s = false <-> ~ In b s.
Proof.
  rewrite <- mem_spec. destruct (mem b s); split; intros; congruence.
Qed.

Lemma is_nil_true {A} (l : list A) : is_nil l = true <-> l = [].
Proof. destruct l; cbn; split; congruence. Qed.

Lemma errkind_eqb_refl e : errkind_eqb e e = true.
Proof. destruct e; cbn; auto using beq_refl. Qed.

Lemma errkind_eqb_eq a b : errkind_eqb a b = true <-> a = b.
Proof.
  split; [| intros ->; apply errkind_eqb_refl].
  destruct a, b; cbn; try congruence. intros H. apply beq_eq in H. now subst.
Qed.

Lemma item_eqb_refl i : item_eqb i i = true.
Proof.
  destruct i; cbn; auto using beq_refl, errkind_eqb_refl.
  - now rewrite beq_refl, errkind_eqb_refl.
  - destruct c; auto.
Qed.

Lemma item_eqb_eq a b : item_eqb a b = true <-> a = b.
Proof.
  split; [| intros ->; apply item_eqb_refl].
  destruct a as [x|x e|e|c|], b as [y|y f|f|c'|]; cbn;
    repeat match goal with c : crash |- _ => destruct c end; try congruence.
  - intros H. apply beq_eq in H. now subst.
  - rewrite andb_true_iff. intros [H1 H2]. apply beq_eq in H1. apply errkind_eqb_eq in H2. now subst.
  - intros H. apply errkind_eqb_eq in H. now subst.
Qed.

(* ---- read_string -------------------------------------------------------- *)

Lemma read_string_spec d s a r f :
  read_string d s = (a, r, f) ->
  s = a ++ r /\
  (f = true -> exists p, a = p ++ [d] /\ ~ In d p) /\
  (f = false -> r = [] /\ ~ In d a).
Proof.
  revert a r f. induction s as [|c s IH]; intros a r f H; cbn in H.
  - inversion H; subst. split; [reflexivity|]. split; [discriminate|].
    intros _. split; [reflexivity|]. intros [].
  - destruct (N.eqb_spec c d) as [->|Hcd].
    + inversion H; subst. split; [reflexivity|]. split; [|discriminate].
      intros _. exists []. split; [reflexivity|]. intros [].
    + destruct (read_string d s) as [[a' r'] f'] eqn:E. inversion H; subst.
      destruct (IH _ _ _ eq_refl) as [Hs [Ht Hf]]. split; [cbn; now f_equal|]. split.
      * intros Hf'. destruct (Ht Hf') as [p [-> Hp]]. exists (c :: p). split; [reflexivity|].
        intros [Hx|Hx]; [congruence|auto].
      * intros Hf'. destruct (Hf Hf') as [Hr Hn]. split; [assumption|].
        intros [Hx|Hx]; [congruence|auto].
Qed.

Lemma read_string_found d p rest :
  ~ In d p -> read_string d (p ++ d :: rest) = (p ++ [d], rest, true).
Proof.
  induction p as [|c p IH]; intros Hn; cbn.
  - now rewrite N.eqb_refl.
  - destruct (N.eqb_spec c d) as [->|Hcd]; [exfalso; apply Hn; now left|].
    rewrite IH; auto. intros Hx. apply Hn. now right.
Qed.

Lemma read_string_nodelim d s : ~ In d s -> read_string d s = (s, [], false).
Proof.
  induction s as [|c s IH]; intros Hn; cbn; auto.
  destruct (N.eqb_spec c d) as [->|Hcd]; [exfalso; apply Hn; now left|].
  rewrite IH; auto. intros Hx. apply Hn. now right.
Qed.

(* ---- read_slice --------------------------------------------------------- *)

Lemma read_slice_spec d : forall s k a r st,
  read_slice d k s = (a, r, st) ->
  s = a ++ r /\
  match st with
  | RSFound => (exists p, a = p ++ [d] /\ ~ In d p) /\ N.of_nat (length a) <= k
  | RSFull => ~ In d a /\ N.of_nat (length a) = k
  | RSEOF => r = [] /\ ~ In d a /\ N.of_nat (length a) < k
  end.
Proof.
  induction s as [|c s IH]; intros k a r st H; cbn in H.
  - destruct (N.eqb_spec k 0) as [->|Hk]; inversion H; subst; cbn; repeat split; auto; lia.
  - destruct (N.eqb_spec k 0) as [->|Hk].
    + inversion H; subst. cbn. repeat split; auto.
    + destruct (N.eqb_spec c d) as [->|Hcd].
      * inversion H; subst. cbn. repeat split; auto; [|lia]. exists []. split; auto.
      * destruct (read_slice d (N.pred k) s) as [[a' r'] st'] eqn:E. inversion H; subst.
        destruct (IH _ _ _ _ E) as [Hs Hst]. split; [cbn; now f_equal|].
        destruct st.
        -- destruct Hst as [[p [-> Hp]] Hl]. split.
           ++ exists (c :: p). split; auto. intros [Hx|Hx]; auto.
           ++ cbn [length] in *. lia.
        -- destruct Hst as [Hn Hl]. split; [intros [Hx|Hx]; auto|]. cbn [length]. lia.
        -- destruct Hst as [Hr [Hn Hl]]. repeat split; auto; [intros [Hx|Hx]; auto|]. cbn [length]. lia.
Qed.

(* the record (without delimiter) fits in what is left of the window: found *)
Lemma read_slice_found d : forall p k rest,
  ~ In d p -> N.of_nat (length p) < k ->
  read_slice d k (p ++ d :: rest) = (p ++ [d], rest, RSFound).
Proof.
  induction p as [|c p IH]; intros k rest Hn Hl; cbn.
  - destruct (N.eqb_spec k 0); [lia|]. now rewrite N.eqb_refl.
  - destruct (N.eqb_spec k 0); [cbn [length] in Hl; lia|].
    destruct (N.eqb_spec c d) as [->|Hcd]; [exfalso; apply Hn; now left|].
    rewrite IH; auto.
    + intros Hx. apply Hn. now right.
    + cbn [length] in Hl. lia.
Qed.

(* at least a full window without delimiter: ErrBufferFull after exactly k bytes *)
Lemma read_slice_full d : forall p k rest,
  ~ In d p -> N.of_nat (length p) = k ->
  read_slice d k (p ++ rest) = (p, rest, RSFull).
Proof.
  induction p as [|c p IH]; intros k rest Hn Hl; cbn.
  - cbn in Hl. subst k. destruct rest; cbn; auto.
  - destruct (N.eqb_spec k 0); [cbn [length] in Hl; lia|].
    destruct (N.eqb_spec c d) as [->|Hcd]; [exfalso; apply Hn; now left|].
    rewrite IH; auto.
    + intros Hx. apply Hn. now right.
    + cbn [length] in Hl. lia.
Qed.

Lemma read_slice_eof d : forall s k,
  ~ In d s -> N.of_nat (length s) < k -> read_slice d k s = (s, [], RSEOF).
Proof.
  induction s as [|c s IH]; intros k Hn Hl; cbn.
  - destruct (N.eqb_spec k 0); [lia|]. reflexivity.
  - destruct (N.eqb_spec k 0); [lia|].
    destruct (N.eqb_spec c d) as [->|Hcd]; [exfalso; apply Hn; now left|].
    rewrite IH; auto.
    + intros Hx. apply Hn. now right.
    + cbn [length] in Hl. lia.
Qed.

(* ReadString as bufio implements it (accumulating ReadSlice over ErrBufferFull) is the
   documented ReadString, for every window size k > 0 *)
Lemma read_string_collect_eq d k : 0 < k -> forall fuel s,
  (length s < fuel)%nat -> read_string_collect fuel d k s = Some (read_string d s).
Proof.
  intros Hk. induction fuel as [|f IH]; intros s Hf; [lia|].
  cbn [read_string_collect].
  destruct (read_slice d k s) as [[a r] st] eqn:E.
  destruct (read_slice_spec _ _ _ _ _ _ E) as [Hs Hst]. subst s. destruct st.
  - destruct Hst as [[p [-> Hp]] _]. rewrite <- app_assoc. cbn. now rewrite read_string_found.
  - destruct Hst as [Hn Hl].
    assert (Hal : (0 < length a)%nat) by lia.
    rewrite IH by (rewrite app_length in Hf; lia).
    destruct (read_string d r) as [[a' r'] f'] eqn:E2.
    destruct (read_string_spec _ _ _ _ _ E2) as [-> [Ht Hfl]]. f_equal.
    destruct f'.
    + destruct (Ht eq_refl) as [p [-> Hp]].
      replace (a ++ (p ++ [d]) ++ r') with ((a ++ p) ++ d :: r')
        by (rewrite <- !app_assoc; reflexivity).
      rewrite read_string_found; [now rewrite <- app_assoc|].
      intros Hx. apply in_app_or in Hx. tauto.
    + destruct (Hfl eq_refl) as [-> Hna]. rewrite app_nil_r.
      rewrite read_string_nodelim; auto. intros Hx. apply in_app_or in Hx. tauto.
  - destruct Hst as [-> [Hn _]]. rewrite app_nil_r. now rewrite read_string_nodelim.
Qed.

(* ---- take_n ------------------------------------------------------------- *)

Lemma take_n_spec : forall s n a r ok,
  take_n n s = (a, r, ok) ->
  s = a ++ r /\
  (ok = true -> N.of_nat (length a) = n) /\
  (ok = false -> r = [] /\ N.of_nat (length a) < n).
Proof.
  induction s as [|c s IH]; intros n a r ok H; cbn in H.
  - inversion H; subst. destruct (N.eqb_spec n 0); cbn; repeat split; auto; try discriminate; lia.
  - destruct (N.eqb_spec n 0) as [->|Hn].
    + inversion H; subst. cbn. repeat split; auto; discriminate.
    + destruct (take_n (N.pred n) s) as [[a' r'] ok'] eqn:E. inversion H; subst.
      destruct (IH _ _ _ _ E) as [Hs [Ht Hf]]. split; [cbn; now f_equal|]. cbn [length]. split.
      * intros Hk. specialize (Ht Hk). lia.
      * intros Hk. destruct (Hf Hk). split; auto. lia.
Qed.

Lemma take_n_app : forall a r, take_n (N.of_nat (length a)) (a ++ r) = (a, r, true).
Proof.
  induction a as [|c a IH]; intros r.
  - cbn. destruct r; reflexivity.
  - cbn [length app take_n]. destruct (N.eqb_spec (N.of_nat (S (length a))) 0); [lia|].
    replace (N.pred (N.of_nat (S (length a)))) with (N.of_nat (length a)) by lia.
    now rewrite IH.
Qed.

Lemma take_n_short : forall s n, N.of_nat (length s) < n -> take_n n s = (s, [], false).
Proof.
  induction s as [|c s IH]; intros n Hl; cbn.
  - destruct (N.eqb_spec n 0); [lia|]. reflexivity.
  - destruct (N.eqb_spec n 0); [lia|]. rewrite IH; auto. cbn [length] in Hl. lia.
Qed.

(* ---- span_before -------------------------------------------------------- *)

Lemma drop_len_app {A B} (k : list A) (v : list B) (r : list B) :
  length k = length r -> length (drop_len k (v ++ r)) = length v.
Proof.
  revert v r. induction k as [|x k IH]; intros v r Hl.
  - destruct r; [|discriminate]. cbn. rewrite app_nil_r. destruct v; reflexivity.
  - destruct r as [|y r]; [discriminate|]. cbn in Hl.
    destruct v as [|z v].
    + cbn. specialize (IH [] r). cbn in IH. apply IH. lia.
    + cbn [app drop_len].
      replace (v ++ y :: r) with ((v ++ [y]) ++ r) by (rewrite <- app_assoc; reflexivity).
      rewrite IH by lia. rewrite app_length. cbn. lia.
Qed.

Lemma take_len_app {A B} (k : list A) (v r : list B) :
  length k = length v -> take_len k (v ++ r) = v.
Proof.
  revert v. induction k as [|x k IH]; intros v Hl.
  - destruct v; [|discriminate]. reflexivity.
  - destruct v as [|y v]; [discriminate|]. cbn. f_equal. apply IH. cbn in Hl. lia.
Qed.

Lemma span_before_app v rest : span_before (v ++ rest) rest = v.
Proof.
  unfold span_before. apply take_len_app. now apply drop_len_app.
Qed.

(* ---- send_all ----------------------------------------------------------- *)

Lemma send_all_sent (send : bytes -> send_result) (enc : bytes -> bytes) rs :
  Forall (fun r => send r = Sent (enc r)) rs ->
  send_all send rs = Some (concat (map enc rs)).
Proof.
  induction 1 as [|r rs Hr _ IH]; cbn; auto. now rewrite Hr, IH.
Qed.

(* ---- the generic round trip --------------------------------------------- *)

Section RoundTrip.
  Context {St : Type}.
  Variable recv : St -> bytes -> result St.
  Variable enc : bytes -> bytes.
  Variable Inv : St -> Prop.          (* invariant of the channel state *)
  Variable Legal : bytes -> Prop.     (* records the framing can carry *)
  Variable Junk : bytes -> Prop.      (* bytes between records that Recv skips (white space for RawJSON) *)

  Hypothesis enc_nonempty : forall r, Legal r -> enc r <> [].
  Hypothesis recv_enc : forall st j r rest, Inv st -> Junk j -> Legal r ->
    exists st' j', recv st (j ++ enc r ++ rest) = Ok r st' (j' ++ rest) /\ Inv st' /\ Junk j'.
  Hypothesis recv_end : forall st j, Inv st -> Junk j ->
    exists st' s' st'' s'', recv st j = Err EEOF st' s' /\ recv st' s' = Err EEOF st'' s''.

  Lemma round_trip_loop : forall rs st j fuel prev,
    Inv st -> Junk j -> Forall Legal rs -> (length rs + 2 <= fuel)%nat ->
    prev <> Some (IErr EEOF) ->
    recv_all_loop recv fuel prev st (j ++ concat (map enc rs)) = map IRec rs ++ [IErr EEOF].
  Proof.
    induction rs as [|r rs IH]; intros st j fuel prev Hi Hj Hl Hf Hp.
    - cbn [map concat app]. rewrite app_nil_r.
      destruct (recv_end st j Hi Hj) as [st' [s' [st'' [s'' [E1 E2]]]]].
      destruct fuel as [|[|f]]; try (cbn in Hf; lia).
      cbn [recv_all_loop]. rewrite E1.
      assert (same_as_prev prev (IErr EEOF) = false) as ->.
      { unfold same_as_prev. destruct prev as [p|]; auto.
        destruct (item_eqb p (IErr EEOF)) eqn:E; auto. apply item_eqb_eq in E. congruence. }
      rewrite E2. cbn. reflexivity.
    - inversion Hl as [|? ? Hr Hrs]; subst. cbn [map concat].
      destruct (recv_enc st j r (concat (map enc rs)) Hi Hj Hr) as [st' [j' [E [Hi' Hj']]]].
      destruct fuel as [|f]; [cbn in Hf; lia|].
      cbn [recv_all_loop]. rewrite E. cbn [map app]. f_equal.
      apply IH; auto; [cbn in Hf; lia | congruence].
  Qed.

  Lemma concat_enc_length rs : Forall Legal rs -> (length rs <= length (concat (map enc rs)))%nat.
  Proof.
    induction 1 as [|r rs Hr _ IH]; cbn; auto. rewrite app_length.
    specialize (enc_nonempty r Hr). destruct (enc r); [congruence|]. cbn. lia.
  Qed.

  Lemma round_trip : forall rs st,
    Inv st -> Junk [] -> Forall Legal rs ->
    recv_all_from recv st (concat (map enc rs)) = map IRec rs ++ [IErr EEOF].
  Proof.
    intros rs st Hi Hj Hl. unfold recv_all_from.
    apply (round_trip_loop rs st [] _ None Hi Hj Hl); [|congruence].
    pose proof (concat_enc_length rs Hl). lia.
  Qed.
  Lemma same_as_prev_noerr prev it :
    (forall e, prev <> Some (IErr e)) -> same_as_prev prev it = false.
  Proof.
    intros Hn. unfold same_as_prev. destruct it; auto. destruct prev as [q|]; auto.
    destruct (item_eqb q (IErr e)) eqn:E; auto. apply item_eqb_eq in E. subst. exfalso. eapply Hn; eauto.
  Qed.

  (* complete records followed by anything: the records come out first *)
  Lemma records_then_tail : forall rs st j fuel prev tail,
    Inv st -> Junk j -> Forall Legal rs -> (forall e, prev <> Some (IErr e)) ->
    exists st' j' prev', Inv st' /\ Junk j' /\ (forall e, prev' <> Some (IErr e)) /\
      recv_all_loop recv (length rs + fuel) prev st (j ++ concat (map enc rs) ++ tail)
      = map IRec rs ++ recv_all_loop recv fuel prev' st' (j' ++ tail).
  Proof.
    induction rs as [|r rs IH]; intros st j fuel prev tail Hi Hj Hl Hp.
    - exists st, j, prev. auto.
    - inversion Hl as [|? ? Hr Hrs]; subst. cbn [map concat length Nat.add]. rewrite <- app_assoc.
      destruct (recv_enc st j r (concat (map enc rs) ++ tail) Hi Hj Hr) as [st1 [j1 [E [Hi1 Hj1]]]].
      cbn [recv_all_loop]. rewrite E.
      destruct (IH st1 j1 fuel (Some (IRec r)) tail Hi1 Hj1 Hrs) as [st' [j' [prev' [H1 [H2 [H3 H4]]]]]]; [congruence|].
      exists st', j', prev'. repeat split; auto. cbn [app]. f_equal. exact H4.
  Qed.
End RoundTrip.

(* ---- generic progress: recv_all never runs out of fuel, never crashes ----- *)

Section Progress.
  Context {St : Type}.
  Variable recv : St -> bytes -> result St.
  Variable Inv : St -> Prop.          (* invariant of the channel state *)

  (* every Recv (from a state satisfying the invariant) either consumes input, or is a bare
     error that leaves the channel in a state where the same bare error is returned again
     (so the observation stops); the invariant is preserved *)
  Definition progress_ok : Prop := forall st s, Inv st ->
    match recv st s with
    | Ok _ st' rest => Inv st' /\ (length rest < length s)%nat
    | OkWithErr r e st' rest =>
        Inv st' /\
        ((length rest < length s)%nat \/ (r = [] /\ rest = s /\ recv st' s = OkWithErr r e st' s))
    | Err e st' rest =>
        Inv st' /\
        ((length rest < length s)%nat \/
         (rest = s /\ exists st'', Inv st'' /\ recv st' s = Err e st'' s /\ recv st'' s = Err e st'' s))
    | Crash _ => False
    | OutOfFuel => False
    end.

  Hypothesis H : progress_ok.

  Definition clean (l : list item) : Prop :=
    forall i, In i l -> match i with ICrash _ | IOutOfFuel => False | _ => True end.

  Lemma clean_cons i l : match i with ICrash _ | IOutOfFuel => False | _ => True end -> clean l -> clean (i :: l).
  Proof. intros Hi Hl x [<-|Hx]; [exact Hi | exact (Hl x Hx)]. Qed.

  Lemma clean_nil : clean [].
  Proof. intros x []. Qed.

  (* a state reached right after a non-consuming bare error e: the next call repeats it *)
  Lemma recv_all_loop_clean : forall fuel prev st s,
    (Inv st /\ (length s + 2 <= fuel)%nat) \/
      ((1 <= fuel)%nat /\ exists e, prev = Some (IErr e) /\
         ((exists st'', recv st s = Err e st'' s) \/ recv st s = OkWithErr [] e st s)) ->
    clean (recv_all_loop recv fuel prev st s).
  Proof.
    induction fuel as [|f IH]; intros prev st s Hf.
    - exfalso. destruct Hf as [[_ Hf]|[Hf _]]; lia.
    - cbn [recv_all_loop]. destruct Hf as [[Hi Hf]|[_ [e [-> Hrep]]]].
      + pose proof (H st s Hi) as P. destruct (recv st s) as [r st' rest|r e st' rest|e st' rest|c|] eqn:E; try contradiction.
        * destruct P as [Hi' P]. apply clean_cons; auto. apply IH. left. split; auto. lia.
        * destruct P as [Hi' P].
          destruct (same_as_prev prev (item_of_recerr r e)); [apply clean_nil|].
          apply clean_cons; [destruct r; exact I|].
          destruct P as [P|[-> [-> P]]].
          -- apply IH. left. split; auto. lia.
          -- apply IH. right. split; [lia|]. exists e. split; auto.
        * destruct P as [Hi' P].
          destruct (same_as_prev prev (IErr e)); [apply clean_nil|].
          apply clean_cons; auto.
          destruct P as [P|[-> [st'' [Hi'' [P1 P2]]]]].
          -- apply IH. left. split; auto. lia.
          -- apply IH. right. split; [lia|]. exists e. split; auto. left. eauto.
      + destruct Hrep as [[st'' E]|E]; rewrite E; cbn [item_of_recerr same_as_prev];
          rewrite item_eqb_refl; apply clean_nil.
  Qed.

  Lemma recv_all_clean st s : Inv st -> clean (recv_all_from recv st s).
  Proof. intros Hi. unfold recv_all_from. apply recv_all_loop_clean. left. split; auto. lia. Qed.
End Progress.
