(* HdrSpec: REFERENCE GRAMMAR of the header framings (StrictHeader, Header, LSP), written from
   the package documentation of channel.StrictHeader / Header and the comments in hdr.go,
   independently of the Recv code and of its model (Hdr.recv, Hdr.hdr_loop, Hdr.recv_body):

     Content-Type: <mime-type>\r\n
     Content-Length: <nbytes>\r\n
     \r\n
     <payload>

   "The length (nbytes) is encoded as decimal digits."  Header lines are  name ":" value ;
   names are compared case-insensitively, unknown fields are ignored, a later field overrides
   an earlier one with the same name, values are taken without surrounding white space; the
   header block ends with an empty line; exactly nbytes payload bytes follow.  A line ends
   with LF or with the end of the stream ("handle a partial line at EOF"); trailing CR / LF
   bytes are not part of its content.

   Only two LIBRARY models are shared with Hdr.v: trim_space (strings.TrimSpace) for "without
   surrounding white space"; everything else is defined here.  Nothing here is executable. *)
From Coq Require Import List NArith ZArith Bool Lia.
From JV Require Import Bytes Hdr.
Import ListNotations.
Local Open Scope N_scope.

Module HdrSpec.
  Definition is_eol_byte (c : N) : Prop := c = 13 \/ c = 10.

  (* the next line of the stream: through the first LF, or all that is left *)
  Definition next_line (s raw rest : bytes) : Prop :=
    s = raw ++ rest /\ raw <> [] /\
    ((exists b, raw = b ++ [10] /\ ~ In 10 b) \/ (rest = [] /\ ~ In 10 raw)).

  (* its content: the line without its trailing CR / LF bytes *)
  Definition content (raw line : bytes) : Prop :=
    exists t, raw = line ++ t /\ Forall is_eol_byte t /\ (forall l c, line = l ++ [c] -> ~ is_eol_byte c).

  (* a header block: fields in order, then the blank line; [rest] is what follows it *)
  Inductive headers : bytes -> list (bytes * bytes) -> bytes -> Prop :=
  | HBlank s raw rest : next_line s raw rest -> content raw [] -> headers s [] rest
  | HField s raw s' name value fs rest :
      next_line s raw s' -> content raw (name ++ 58 :: value) -> ~ In 58 name ->
      headers s' fs rest -> headers s ((name, value) :: fs) rest.

  Definition lower (c : N) : N := if (65 <=? c) && (c <=? 90) then c + 32 else c.

  (* the value of the field [key] (given in lower case): the LAST line whose name matches
     case-insensitively, without surrounding white space *)
  Fixpoint field (key : bytes) (fs : list (bytes * bytes)) : option bytes :=
    match fs with
    | [] => None
    | (n, v) :: fs' => match field key fs' with
                       | Some x => Some x
                       | None => if beq (map lower n) key then Some (trim_space v) else None
                       end
    end.

  Definition key_type : bytes := [99; 111; 110; 116; 101; 110; 116; 45; 116; 121; 112; 101].
  Definition key_length : bytes := [99; 111; 110; 116; 101; 110; 116; 45; 108; 101; 110; 103; 116; 104].

  (* a non-negative decimal that strconv.Atoi accepts: optional sign, one or more ASCII
     digits, value within int64 *)
  Definition digit (c : N) : Prop := 48 <= c <= 57.
  Definition dec_value (ds : bytes) : N := fold_left (fun a c => a * 10 + (c - 48)) ds 0.
  Definition decimal (v : bytes) (n : N) : Prop :=
    exists sign ds, v = sign ++ ds /\ ds <> [] /\ Forall digit ds /\ dec_value ds = n /\
      (sign = [] \/ sign = [43] \/ (sign = [45] /\ n = 0)) /\ n <= 9223372036854775807.

  (* an absent Content-Type is the empty type *)
  Definition ctype (fs : list (bytes * bytes)) : bytes :=
    match field key_type fs with Some v => v | None => [] end.

  (* the stream [s] starts with a frame of content type [ct] and payload [r], followed by [rest] *)
  Definition frame (s ct r rest : bytes) : Prop :=
    exists fs body v n, headers s fs body /\ field key_length fs = Some v /\ decimal v n /\
      body = r ++ rest /\ N.of_nat (length r) = n /\ ct = ctype fs.
End HdrSpec.
