(* Extraction of the executable models for the correspondence checks.
   ExtrOcamlBasic only: bool, option, unit, list, prod, sumbool, sumor map to
   OCaml's own types; nat, positive, N, Z stay the extracted inductive types.
   No Extract Constant directives. *)
From Coq Require Import Extraction ExtrOcamlBasic.
From Coq Require Import ZArith NArith.
From JV Require Import Bytes Sort Dispatch.
Extraction Language OCaml.
Separate Extraction
  BinInt.Z.add BinInt.Z.of_N BinInt.Z.to_N BinNat.N.of_nat BinNat.N.to_nat
  Bytes.beq Bytes.ble Bytes.has_prefix
  Sort.sort
  Dispatch.assign Dispatch.names Dispatch.server_assign Dispatch.info_methods Dispatch.dispatch_request.
