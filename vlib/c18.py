"""C18 - HTTP bridge.  Model: coq/http/Bridge.v; runner: ocaml/run_bridge.ml; harness:
harness/conc/bridge.go (family bridge:c18: a real jhttp.Bridge over its real local
server and shared client, driven in-process inside a synctest bubble)."""
import concurrent.futures as cf
import json
import os

from . import common as C

FAMILY = "bridge:c18"
SHARDS = 12
N_QUICK = 120000
N_THOROUGH = 480000

TRUSTED = [
    "mime.ParseMediaType, strings.EqualFold: the harness hands the model the media type and charset parameter that "
    "mime.ParseMediaType returns for the header; EqualFold against \"utf-8\"/\"utf8\" is modelled as ASCII case folding",
    "the harness annotates each generated member with what jrpc2.ParseRequests yields for it (id text, method, params, "
    "error code: C02's subject); a wrong annotation shows up as a disagreement",
    "response bodies are compared as JSON trees: ids as raw text after encoding/json's HTML-safe re-encoding "
    "(<, >, &, U+2028, U+2029 inside string ids are written as \\u escapes by json.Marshal: same JSON value, counted in "
    "ids_reencoded), results as raw text, errors by code",
    "testing/synctest's definition of durable blocking (quiescence oracle); verif hook points (add-only, no data); the bridge adds "
    "no critical section of its own: its interleavings are those of the shared client (cli.req, cli.send, cli.deliver) and the server",
]
ASSUMPTIONS = [
    "inner_ok: Client.Batch over the local server returns one reply per call spec, in spec order, under the ids the shared "
    "client allocated (C01 + C04 c04_batch_order); discharged for the table-driven inner server of the runs (c18_table_inner_ok)",
    "handlers return when the harness releases them (gated handlers); the bridge is not closed while requests are in flight",
]


def _worker(seed, lo, hi, shard, tag=""):
    out = os.path.join(C.OUT, "c18-%d-%s%d.log" % (seed, tag, shard))
    env = dict(C.GOENV, VERIF_FAMILY=FAMILY, VERIF_SEED=str(seed))
    crashes, logs = [], []
    cur, part = lo, 0
    while cur < hi and len(crashes) < 3:
        pout = out + ".%d" % part
        env.update(VERIF_FROM=str(cur), VERIF_TO=str(hi), VERIF_OUT=pout)
        rc, txt = C.sh([os.path.join(C.BUILD, "conc.test"), "-test.run", "^TestWorker$", "-test.timeout", "8m"],
                       env=env, timeout=540)
        logs.append(pout)
        prog = ""
        try:
            prog = open(pout + ".progress").read().strip()
        except OSError:
            pass
        if rc == 0 and prog == "done":
            break
        try:
            idx = int(prog)
        except ValueError:
            idx = cur
        crashes.append(dict(seed=seed, idx=idx, exit=rc, output=txt[-5000:], log=pout))
        cur = idx + 1
        part += 1
    return logs, crashes


def split_scenarios(lines):
    """-> list of dict(idx, kind, lines=[(lineno, text)], complete)"""
    out, cur = [], None
    for i, l in enumerate(lines, 1):
        if l.startswith("scenario\t"):
            f = l.split("\t")
            cur = dict(idx=int(f[3]), kind=f[4] if len(f) > 4 else "?", policy=f[5] if len(f) > 5 else "q", lines=[], complete=False)
            out.append(cur)
        if cur is not None:
            cur["lines"].append((i, l))
            if l == "end":
                cur["complete"] = True
    return out


def unhex(h):
    return "" if h == "-" else bytes.fromhex(h).decode("utf-8", "replace")


def parse_scenario(sc):
    """requests: n -> dict(method, gate-relevant fields, members=[(id, method, params, err)], tokens), outcomes: params -> (kind, val),
    answers: n -> dict(status, shape, objs=[(id, kind, val)], started=[params])"""
    reqs, outs, ans, faults, cfg = {}, {}, {}, [], None
    for _, l in sc["lines"]:
        f = l.split("\t")
        if f[0] == "cfg":
            cfg = dict(hook=f[1] == "1", getter=f[2] == "1", conc=f[3])
        elif f[0] == "H":
            outs[f[1]] = (f[2], f[3])
        elif f[0] == "Q":
            mem = [] if f[8] == "-" else [tuple(m.split(",")) for m in f[8].split(";")]
            reqs[f[1]] = dict(method=unhex(f[2]), mt=unhex(f[3]), hascs=f[4] == "1", cs=unhex(f[5]), kind=f[6], batch=f[7] == "1",
                              members=mem, ct=unhex(f[9]), body=unhex(f[10]), tokens=[] if f[11] == "-" else f[11].split(","))
        elif f[0] == "A":
            objs = [] if f[4] == "-" else [tuple(o.split(",")) for o in f[4].split(";")]
            ans[f[1]] = dict(status=f[2], shape=f[3], objs=objs, started=[] if f[5] == "-" else f[5].split(","))
        elif f[0] == "F":
            faults.append("\t".join(f[1:]))
    return cfg, reqs, outs, ans, faults


NULL = "6e756c6c"


def monitors(sc):
    """The decidable part of C18 on an OBSERVED scenario; returns None or (name, sentence)."""
    cfg, reqs, outs, ans, faults = parse_scenario(sc)
    for n, a in ans.items():
        if a["status"] == "hang":
            return ("answered", "request %s never completed although every handler was released" % n)
    if faults:
        return ("harness_fault", faults[0])
    tok_owner = {}
    for n, q in reqs.items():
        for t in q["tokens"]:
            tok_owner[t] = n
    for n, q in reqs.items():
        a = ans.get(n)
        if a is None:
            continue
        if a["status"] == "hang":
            return ("answered", "request %s never completed although every handler was released" % n)
        valid = [m for m in q["members"] if m[3] == "0"]
        invalid = [m for m in q["members"] if m[3] != "0"]
        calls = [m for m in valid if m[0] not in ("-", NULL)]
        # no handler for a statically invalid member, a gated request or a broken body; at most once otherwise
        runnable = set(m[2] for m in valid if m[1] == "67")
        if len(set(a["started"])) != len(a["started"]):
            return ("once", "a handler of request %s ran twice (%s)" % (n, a["started"]))
        for t in a["started"]:
            if t not in runnable:
                return ("static_no_handler", "handler ran for params %s of request %s, which is no valid request to the known method" % (t, n))
        if a["status"] in ("200", "204"):
            if q["kind"] == "B":
                return ("bad_body", "request %s has a body that is not JSON and was answered %s" % (n, a["status"]))
            for t in runnable:
                if t not in a["started"]:
                    return ("once", "valid request with params %s of request %s was answered without its handler having run" % (t, n))
            # ids: every response object bears an id this POST sent (multiset)
            sent = {}
            for m in calls:
                sent[m[0]] = sent.get(m[0], 0) + 1
            for m in invalid:
                k = NULL if m[0] in ("-", NULL) else m[0]
                sent[k] = sent.get(k, 0) + 1
            for o in a["objs"]:
                if sent.get(o[0], 0) <= 0:
                    return ("own_ids", "response object with id %s in the answer to request %s, which sent no (further) member with that id"
                            % (unhex(o[0]) if o[0] != "?" else "<missing>", n))
                sent[o[0]] -= 1
            if any(v for v in sent.values()):
                return ("own_responses", "request %s: members left unanswered: %s" % (n, {unhex(k): v for k, v in sent.items() if v}))
            # each call to the known method answered exactly once with the outcome of its own token, under its own id;
            # no outcome of another POST's token
            for m in calls:
                if m[1] != "67":
                    continue
                oc = outs.get(m[2])
                if oc is None:
                    continue
                hits = [o for o in a["objs"] if (o[1], o[2]) == oc]
                if len(hits) != 1:
                    return ("own_outcome", "request %s: the outcome of its call with params %s appears %d times in its answer" % (n, unhex(m[2]), len(hits)))
                if hits[0][0] != m[0]:
                    return ("own_ids", "request %s: the outcome of the call with id %s came back under id %s" % (n, unhex(m[0]), unhex(hits[0][0])))
            for o in a["objs"]:
                for t, oc in outs.items():
                    if (o[1], o[2]) == oc and tok_owner.get(t) not in (None, n):
                        return ("isolation", "answer to request %s contains the outcome of params %s, a call of request %s" % (n, unhex(t), tok_owner[t]))
            # shape / status
            k = len(a["objs"])
            want = ("204", "none") if k == 0 else ("200", "obj") if k == 1 else ("200", "arr")
            if (a["status"], a["shape"]) != want:
                return ("shape_status", "request %s: %d response objects answered with status %s, body %s" % (n, k, a["status"], a["shape"]))
        else:
            if a["started"]:
                return ("gate_no_handler", "request %s was answered %s but ran handlers %s" % (n, a["status"], a["started"]))
        # the gate
        if not cfg["hook"] and not (cfg["getter"] and q["method"] == "GET"):
            if q["method"] != "POST":
                if a["status"] != "405":
                    return ("gate", "request %s: method %s without a hook answered %s, not 405" % (n, q["method"], a["status"]))
            elif q["mt"] != "application/json" or (q["hascs"] and q["cs"].lower() not in ("utf-8", "utf8")):
                if a["status"] != "415":
                    return ("gate", "request %s: Content-Type %r answered %s, not 415" % (n, q["ct"], a["status"]))
            elif a["status"] in ("405", "415"):
                return ("gate", "request %s: a JSON/UTF-8 POST (Content-Type %r) was rejected with %s" % (n, q["ct"], a["status"]))
    return None


def nontrivial(sc):
    """A scenario counts when at least one POST was answered with response objects or 204 after running a handler."""
    for _, l in sc["lines"]:
        f = l.split("\t")
        if f[0] == "A" and f[2] in ("200", "204") and (f[4] != "-" or f[5] != "-"):
            return True
    return False


def judge(ctx, res, logs, crashes):
    seed = ctx["seed"]
    evals = nreq = 0
    distinct = set()
    dist = {}
    samples = []
    reenc = 0
    nviol = 0
    keep = set()

    def bump(k):
        dist[k] = dist.get(k, 0) + 1

    for lp in logs:
        if not os.path.exists(lp):
            continue
        okm, mism, total, raw = C.run_model("run_bridge", lp)
        lines = C.read_cases(lp)
        scs = split_scenarios(lines)
        if not okm:
            res.violation("corr:model-run", "the model runner failed on " + os.path.basename(lp),
                          dict(kind="broken-correspondence", log=raw[-3000:]), found_input=False)
            continue
        if raw.strip():
            res.notes.append("runner output on %s: %s" % (os.path.basename(lp), raw.strip()[:300]))
        nreq += total
        by_line = {m["line"]: m for m in mism}
        for sc in scs:
            evals += 1
            body = "\n".join(l for _, l in sc["lines"] if not l.startswith("scenario\t"))
            if nontrivial(sc):
                distinct.add(C.sha(body))
            bump("scenario:" + sc["kind"])
            bump("policy:" + sc["policy"])
            nposts = 0
            for _, l in sc["lines"]:
                f = l.split("\t")
                if f[0] == "A":
                    nposts += 1
                    bump("status:" + f[2])
                    bump("shape:" + f[3])
                elif f[0] == "idesc":
                    reenc += 1
                elif f[0] == "ev" and f[1] == "sched":
                    bump("sched_release:" + f[2])
                elif f[0] == "Q":
                    bump("body:" + ("not-json" if f[6] == "B" else ("batch" if f[7] == "1" else "single")))
                    if f[8] != "-":
                        for m in f[8].split(";"):
                            p = m.split(",")
                            bump("member:" + ("invalid" if p[3] != "0" else "notification" if p[0] in ("-", NULL) else "call"))
            if sc["kind"] == "conc":
                bump("concurrent_posts:%d" % nposts)
            if len(samples) < 2 and sc["complete"] and sc["kind"] == "conc" and nposts >= 2:
                samples.append([l[:200] for _, l in sc["lines"][:30]])
            if not sc["complete"]:
                continue
            mon = monitors(sc)
            ms = [by_line[i] for i, _ in sc["lines"] if i in by_line]
            if mon or ms:
                keep.add(lp)
            if (mon or ms) and nviol < 6:
                nviol += 1
                what = mon[1] if mon else "answer differs from the model's prediction: expected %s, observed %s" % (
                    ms[0]["expected"].replace("\t", " "), ms[0]["got"].replace("\t", " "))
                key = "c18:%s" % (mon[0] if mon else "prediction")
                res.violation(key, what,
                              dict(kind="failing-history", family=FAMILY, seed=seed, idx=sc["idx"], monitor=mon[0] if mon else None,
                                   what=what, mismatches=ms[:5], log=[l for _, l in sc["lines"]],
                                   replay_cmd="./check C18 --replay <this file>"),
                              found_input=True)
    # the logs are large (about 2.5 kB per scenario): keep only those a violation refers to
    for lp in logs:
        if lp not in keep and not crashes and os.path.exists(lp) and not ctx.get("replay"):
            os.remove(lp)
    for c in crashes[:3]:
        o = c["output"]
        what = "worker process died"
        if "blocked goroutines remain" in o or "deadlock" in o:
            what = "deadlock / goroutines left blocked: a request never completes"
        elif "panic:" in o:
            what = "panic: " + o.split("panic:", 1)[1].split("\n", 1)[0].strip()
        elif c["exit"] == 124:
            what = "hang: scenario did not finish"
        res.violation("c18:crash", what, dict(kind="failing-history", family=FAMILY, seed=c["seed"], idx=c["idx"], exit=c["exit"],
                                              what=what, output=o[-4000:]), found_input=True)
    res.evaluations = evals
    res.distinct_nontrivial = len(distinct)
    res.samples = samples
    res.extra.update(http_requests_compared=nreq, distribution=dict(sorted(dist.items())), ids_reencoded=reenc,
                     worker_crashes=len(crashes), modes="Q (quiescent stepping: launch / release one handler / synctest.Wait) and, for a third of the concurrent scenarios, "
                     "S (goroutines parked at the verif scheduling points of the shared client and the server, released in a generated order)")
    res.rule = ("scenario = one real jhttp.Bridge (with/without ParseRequest and ParseGETRequest hooks, server concurrency 1/2/4/default) and "
                "either (gate) the 46-entry Content-Type table x {POST, GET, PUT} x hook settings, one request per header value, or (conc) "
                "1-6 concurrent POSTs whose bodies are drawn from the member basis (single / batch / one-element batch / empty batch / not "
                "JSON; calls, notifications, null-id notifications, unknown methods, every single-defect invalid member, reply-shaped "
                "members) over 1-3 ids shared by all POSTs of the scenario (colliding and exotic: 1e3, \"1\", -0, 1.0, big numbers, "
                "escapes), launches and handler releases in a generated order; every answer (status, shape, objects with raw ids, "
                "handlers run) is compared with Bridge.serve_table and judged by the monitors; non-trivial = distinct scenario in which "
                "some request was answered 200/204 with response objects or after running a handler")


def run(ctx, res):
    ok, log = C.go_build_conc()
    if not ok:
        res.violation("corr:harness-build", "the bridge harness does not build against /repo",
                      dict(kind="broken-correspondence", what="go1.26 test -c -tags verif", log=log[-3000:]), found_input=False)
        return
    seed = ctx["seed"]
    if ctx.get("replay"):
        with open(ctx["replay"]) as f:
            rp = json.load(f)
        seed = int(rp.get("seed", seed))
        idx = int(rp.get("idx", 0))
        logs, crashes = _worker(seed, idx, idx + 1, 99, tag="replay")
        return judge(dict(ctx, seed=seed), res, logs, crashes)
    n = N_THOROUGH if ctx["tier"] == "thorough" else N_QUICK
    per = (n + SHARDS - 1) // SHARDS
    jobs = []
    with cf.ThreadPoolExecutor(max_workers=SHARDS) as ex:
        for s in range(SHARDS):
            lo, hi = s * per, min(n, (s + 1) * per)
            if lo < hi:
                jobs.append(ex.submit(_worker, seed, lo, hi, s))
        results = [j.result() for j in jobs]
    logs, crashes = [], []
    for l, c in results:
        logs += l
        crashes += c
    judge(ctx, res, logs, crashes)
    # a POST whose request context has already ended is answered like any other (scripted probe)
    C.run_probes(res, "C18", ["bridge-dead-context-post"])
