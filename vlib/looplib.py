"""Driver for the server.Loop property (C20): runs harness/conc scenario workers (component "loop",
harness/conc/loop.go) in parallel against /repo, replays every scenario log through the Coq Loop model
(ocaml/run_loop.ml -> LoopAccept.accept), evaluates the property monitors on the observed logs, and turns
crashes / leaks / rejected logs into violations."""
import os
import concurrent.futures as cf

from . import common as C

SHARDS = 12


def _worker(fam, seed, lo, hi, shard):
    out = os.path.join(C.OUT, "%s-%d-%d.log" % (fam.replace(":", "_"), seed, shard))
    env = dict(C.GOENV, VERIF_FAMILY=fam, VERIF_SEED=str(seed), VERIF_OUT=out)
    crashes, logs = [], []
    cur, part = lo, 0
    while cur < hi and len(crashes) < 3:
        pout = out + ".%d" % part
        for p in (pout, pout + ".progress"):
            if os.path.exists(p):
                os.remove(p)
        env.update(VERIF_FROM=str(cur), VERIF_TO=str(hi), VERIF_OUT=pout)
        rc, txt = C.sh([os.path.join(C.BUILD, "conc.test"), "-test.run", "^TestWorker$", "-test.timeout", "20m"],
                       env=env, timeout=1500)
        logs.append(pout)
        prog = ""
        try:
            prog = open(pout + ".progress").read().strip()
        except OSError:
            pass
        if rc == 0 and prog == "done":
            break
        try:
            idx = int(prog)
        except ValueError:
            idx = cur
        crashes.append(dict(family=fam, seed=seed, idx=idx, exit=rc, output=txt[-6000:], log=pout))
        cur = idx + 1
        part += 1
    return logs, crashes


def split_scenarios(path):
    """Yield dict(lines, idx, policy, complete) per scenario of a worker log (the last may be partial)."""
    cur = None
    with open(path, encoding="utf-8", errors="replace") as f:
        for line in f:
            line = line.rstrip("\n")
            if line.startswith("cfg\t"):
                if cur is not None:
                    yield cur
                cur = dict(cfg=line, lines=[line], idx=None, complete=False, policy="?")
            elif cur is not None:
                cur["lines"].append(line)
                if line.startswith("scenario\t"):
                    p = line.split("\t")
                    cur["idx"] = int(p[3])
                    cur["policy"] = p[4]
                elif line == "end":
                    cur["complete"] = True
    if cur is not None:
        yield cur


# ---------------------------------------------------------------------------
# Monitors: decidable predicates of C20 on an OBSERVED log.  Each returns None (holds) or a sentence.
# They are sound (never fail on behaviour the property allows), not complete.

def windows(sc):
    """[(head fields, [obs fields])] for env/rel windows, in order; plus the final line fields."""
    ws, final = [], None
    cur = None
    for l in sc["lines"]:
        f = l.split("\t")
        if f[0] in ("env", "rel"):
            cur = (f, [])
            ws.append(cur)
        elif f[0] == "o" and cur is not None:
            cur[1].append(f[1:])
        elif f[0] == "final":
            final = f
    return ws, final


def is_race(sc):
    return sc["cfg"].split("\t")[1] == "2"


def conn_of_instances(sc):
    """instance -> connection, from the window in which the instance's Assigner ran (the goroutine of
    connection k runs newService and Assigner in the window of `rel loop.conn k`, or of `env accept k`
    when no scheduling hook is active).  Returns (map, error)."""
    hooks = sc["cfg"].split("\t")[1] == "1"
    ws, _ = windows(sc)
    inst_conn = {}
    users = {}
    if is_race(sc):      # no quiescence between actions: which connection an instance serves is not known
        return {}, None
    for head, obs in ws:
        k = None
        if hooks and head[0] == "rel" and head[1] == "loop.conn" and len(head) > 2:
            k = int(head[2])
        if not hooks and head[0] == "env" and head[1] == "accept":
            k = int(head[2])
        if k is None:
            continue
        for o in obs:
            if o[0] == "assigner":
                i = int(o[1])
                users.setdefault(i, set()).add(k)
                inst_conn[i] = k
    for i, ks in users.items():
        if len(ks) > 1:
            return inst_conn, "service instance %d is used by connections %s (one newService call shared)" % (i, sorted(ks))
    return inst_conn, None


def mon_fresh_service(sc):
    """every connection whose goroutine ran obtained its own instance from a fresh newService call;
    Assigner is called once per instance; handlers of connection k come from the assigner of k's instance"""
    hooks = sc["cfg"].split("\t")[1] == "1"
    ws, _ = windows(sc)
    inst_conn, err = conn_of_instances(sc)
    if err:
        return err
    seen_new, seen_asg = set(), {}
    race = is_race(sc)
    for head, obs in ws:
        ran = (hooks and head[0] == "rel" and head[1] == "loop.conn") or (not hooks and head[0] == "env" and head[1] == "accept")
        nnew = 0
        for o in obs:
            if o[0] == "newsvc":
                nnew += 1
                if o[1] in seen_new:
                    return "newService returned instance %s twice" % o[1]
                seen_new.add(o[1])
            if o[0] == "assigner":
                if o[1] in seen_asg:
                    return "Assigner called twice on instance %s" % o[1]
                seen_asg[o[1]] = o[2]
                if o[1] not in seen_new:
                    return "Assigner called on instance %s, which no newService call of this Loop returned" % o[1]
            if o[0] == "call" and not race:
                k, a = int(o[1]), int(o[2])
                if inst_conn.get(a) != k:
                    return "a call on connection %d was served by the assigner of instance %d (connection %s)" % (k, a, inst_conn.get(a))
        if race:
            continue
        if ran and nnew != 1:
            return "the goroutine of a connection made %d newService calls (expected exactly one, its own)" % nnew
        if not ran and nnew:
            return "newService called outside the start of a connection"
    return None


def mon_finish(sc):
    """Finish at most once per instance, only for instances whose Assigner succeeded, with that assigner,
    after the server's exit (a cause occurred, no handler of that connection still running) and with a
    status naming a cause that occurred; in a complete log exactly once per started server"""
    ws, final = windows(sc)
    inst_conn, _ = conn_of_instances(sc)
    asg = {}
    finished = {}
    ctx = False
    closed, failed = set(), set()
    inflight = {}
    # first cause per connection (C08: the first cause to reach a running server decides its status): the
    # causes present when the window in which the server started ends are concurrent (any of them); if
    # there is none, the first cause of a later window wins
    first = {}
    started_conns = set()
    for head, obs in ws:
        if head[0] == "env":
            for k in started_conns:
                if k not in first:
                    if head[1] == "ctxend":
                        first[k] = {"stopped"}
                    elif head[1] == "close" and int(head[2]) == k:
                        first[k] = {"closed"}
                    elif head[1] == "pfail" and int(head[2]) == k:
                        first[k] = {"failed"}
        for o in obs:
            if o[0] == "assigner" and o[2] == "ok" and int(o[1]) in inst_conn:
                started_conns.add(inst_conn[int(o[1])])
        if head[0] == "env":
            pass
    # causes pending at the start window
    first_at_start = {}
    c2, cl2, fl2 = False, set(), set()
    for head, obs in ws:
        if head[0] == "env":
            if head[1] == "ctxend":
                c2 = True
            elif head[1] == "close":
                cl2.add(int(head[2]))
            elif head[1] == "pfail":
                fl2.add(int(head[2]))
        for o in obs:
            if o[0] == "assigner" and o[2] == "ok" and int(o[1]) in inst_conn:
                k = inst_conn[int(o[1])]
                pend = set()
                if c2:
                    pend.add("stopped")
                if k in cl2:
                    pend.add("closed")
                if k in fl2:
                    pend.add("failed")
                first_at_start[k] = pend
    for head, obs in ws:
        if head[0] == "env":
            if head[1] == "ctxend":
                ctx = True
            elif head[1] == "close":
                closed.add(int(head[2]))
            elif head[1] == "pfail":
                failed.add(int(head[2]))
            elif head[1] == "gate":
                inflight[int(head[2])] = inflight.get(int(head[2]), 0) - 1
        for o in obs:
            if o[0] == "assigner":
                asg[int(o[1])] = o[2]
            elif o[0] == "call":
                inflight[int(o[1])] = inflight.get(int(o[1]), 0) + 1
            elif o[0] == "finish":
                i, a, st = int(o[1]), int(o[2]), o[3]
                if i in finished:
                    return "Finish called twice on instance %d" % i
                finished[i] = st
                if asg.get(i) != "ok":
                    return "Finish called on instance %d whose Assigner %s" % (i, "failed" if asg.get(i) == "fail" else "was never called")
                if a != i:
                    return "Finish on instance %d received assigner %d, not the one its Assigner returned" % (i, a)
                k = inst_conn.get(i)
                if k is None:
                    continue
                causes = set()
                if ctx:
                    causes.add("stopped")
                if k in closed:
                    causes.add("closed")
                if k in failed:
                    causes.add("failed")
                if not causes:
                    return "Finish on instance %d (connection %d) before its server exited: nothing has stopped that server" % (i, k)
                if inflight.get(k, 0) > 0:
                    return "Finish on instance %d (connection %d) before its server exited: a handler is still running" % (i, k)
                if st not in causes:
                    return "Finish on instance %d (connection %d) received status %s; the server can only have exited with %s" % (
                        i, k, st, "/".join(sorted(causes)))
                want = first_at_start.get(k) or first.get(k)
                if want and st not in want:
                    return ("Finish on instance %d (connection %d) received status %s, but the first cause that stopped its "
                            "server was %s (later causes do not change a server's exit status)") % (i, k, st, "/".join(sorted(want)))
    if sc["complete"]:
        for i, r in asg.items():
            if r == "ok" and i not in finished:
                return "no Finish for instance %d although its server was started and everything was shut down" % i
    return None


def mon_returns_last(sc):
    """Loop returns at most once, after the Finish of every started server; nothing is finished after it;
    the value is nil iff the accepter failed with a closing error / the context ended; in a complete log
    (accepter failed or context ended, every client closed or context ended) Loop has returned"""
    ws, final = windows(sc)
    asg, finished = {}, set()
    returned = None
    other = False
    for head, obs in ws:
        if head[0] == "env" and head[1] == "aerr" and head[2] == "other":
            other = True
        for o in obs:
            if o[0] == "assigner":
                if returned is not None:
                    return ("Loop returned before every accepted connection was finished: the service of an accepted "
                            "connection was still being started after the return")
                asg[int(o[1])] = o[2]
            elif o[0] == "finish":
                if returned is not None:
                    return "Finish on instance %s after Loop returned" % o[1]
                finished.add(int(o[1]))
            elif o[0] == "return":
                if returned is not None:
                    return "Loop returned twice"
                returned = o[1]
                missing = [i for i, r in asg.items() if r == "ok" and i not in finished]
                if missing:
                    return "Loop returned before Finish of instance(s) %s" % missing
                want = "err" if other else "nil"
                if o[1] != want:
                    return "Loop returned %s, expected %s" % (o[1], want)
    if sc["complete"]:
        if returned is None or (final and final[1] != "1"):
            return "Loop did not return although its accepter failed / its context ended and every server was shut down"
        # connections accepted but never started before the return
        n_acc = sum(1 for h, _ in ws if h[0] == "env" and h[1] == "accept")
        if len(asg) != n_acc:
            return "Loop returned while %d accepted connection(s) had not been served" % (n_acc - len(asg))
    return None


def mon_closed(sc):
    """every accepted channel is closed exactly once in the end; in particular the channel of a service
    whose Assigner failed is closed by Loop"""
    if not sc["complete"]:
        return None
    ws, final = windows(sc)
    if final is None:
        return None
    inst_conn, _ = conn_of_instances(sc)
    failed_conns = set()
    for head, obs in ws:
        for o in obs:
            if o[0] == "assigner" and o[2] == "fail" and int(o[1]) in inst_conn:
                failed_conns.add(inst_conn[int(o[1])])
    closes = [] if final[2] == "-" else [int(x) for x in final[2].split(",")]
    for k, n in enumerate(closes):
        if n != 1:
            if k in failed_conns:
                return "connection %d, whose service failed to initialise, was closed %d times (left dangling)" % (k, n)
            return "connection %d was closed %d times" % (k, n)
    return None


def mon_left(sc):
    """no goroutine of Loop is left once it has returned and everything is shut down"""
    ws, final = windows(sc)
    if sc["complete"] and final is not None and final[3] != "0":
        return "%s goroutine(s) left in the bubble after Loop returned" % final[3]
    for l in sc["lines"]:
        if l.startswith("fault\t"):
            return l.split("\t", 1)[1]
    return None


MONITORS = [mon_fresh_service, mon_finish, mon_returns_last, mon_closed, mon_left]


def nontrivial(sc):
    txt = "\n".join(sc["lines"])
    return "\no\tfinish\t" in txt and "\no\treturn\t" in txt


def run_family(ctx, res, fam, n_quick=3000, n_thorough=60000):
    ok, log = C.go_build_conc()
    if not ok:
        res.violation("corr:harness-build", "the scheduling harness does not build against /repo",
                      dict(kind="broken-correspondence", what="go1.26 test -c -tags verif", log=log[-3000:]),
                      found_input=False)
        return
    if ctx.get("replay"):
        return replay(ctx, res, fam)
    seed = ctx["seed"]
    n = n_thorough if ctx["tier"] == "thorough" else n_quick
    per = (n + SHARDS - 1) // SHARDS
    jobs = []
    with cf.ThreadPoolExecutor(max_workers=SHARDS) as ex:
        for s in range(SHARDS):
            lo, hi = s * per, min(n, (s + 1) * per)
            if lo < hi:
                jobs.append(ex.submit(_worker, fam, seed, lo, hi, s))
        results = [j.result() for j in jobs]
    logs, crashes = [], []
    for l, c in results:
        logs += l
        crashes += c
    judge_logs(ctx, res, fam, logs, crashes)


def judge_logs(ctx, res, fam, logs, crashes):
    distinct = set()
    evals = 0
    policies, kinds, statuses = {}, {}, {}
    samples, rejected = [], []
    verdicts = {}

    def _accept(lp):
        if not os.path.exists(lp):
            return lp, 0, ""
        with open(lp, "rb") as f:
            data = f.read()
        rc, out = C.sh([C.runner("run_loop")], stdin=data, timeout=3000)
        return lp, rc, out

    with cf.ThreadPoolExecutor(max_workers=SHARDS) as ex:
        outs = list(ex.map(_accept, logs))
    for lp, rc, out in outs:
        if out and (rc != 0 or "DONE" not in out):
            res.violation("corr:model-runner", "the Loop model runner failed on a harness log",
                          dict(kind="broken-correspondence", what="run_loop", log=out[-2000:], file=lp), found_input=False)
        for line in out.split("\n"):
            p = line.split(" ", 4)
            if p[0] in ("OK", "REJECT", "FAULT", "FUEL", "BADLOG") and len(p) >= 4:
                verdicts.setdefault((p[1], p[2], p[3]), []).append((p[0], p[4] if len(p) > 4 else ""))
    nmon = 0
    for lp in logs:
        if not os.path.exists(lp):
            continue
        for sc in split_scenarios(lp):
            if sc["idx"] is None:
                continue
            evals += 1
            body = "\n".join(l for l in sc["lines"] if not l.startswith("scenario\t"))
            if nontrivial(sc):
                distinct.add(C.sha(body))
            policies[sc["policy"]] = policies.get(sc["policy"], 0) + 1
            for l in sc["lines"]:
                f = l.split("\t")
                k = f[0] + (":" + f[1] if f[0] in ("env", "rel", "o") and len(f) > 1 else "")
                if f[0] == "o" and f[1] == "assigner":
                    k += ":" + f[3]
                if f[0] == "o" and f[1] == "return":
                    k += ":" + f[2][:5]
                if f[0] == "env" and f[1] == "aerr":
                    k += ":" + f[2]
                if f[0] == "o" and f[1] == "finish":
                    statuses[f[4]] = statuses.get(f[4], 0) + 1
                kinds[k] = kinds.get(k, 0) + 1
            if len(samples) < 2 and sc["complete"] and len(sc["lines"]) > 25:
                samples.append([l[:120] for l in sc["lines"][:60]])
            key = (fam, str(ctx["seed"]), str(sc["idx"]))
            vs = verdicts.get(key, [])
            mon_fail = None
            for m in MONITORS:
                r = m(sc)
                if r:
                    mon_fail = (m.__name__, r)
                    break
            rej = next((v for v in vs if v[0] in ("REJECT", "FUEL", "BADLOG")), None)
            if mon_fail:
                nmon += 1
                if nmon <= 4:
                    res.violation("%s:monitor:%s" % (fam, mon_fail[0]), mon_fail[1],
                                  dict(kind="failing-history", family=fam, seed=ctx["seed"], idx=sc["idx"],
                                       monitor=mon_fail[0], what=mon_fail[1],
                                       model_verdict=rej[1] if rej else "accepted", log=sc["lines"]), found_input=True)
            elif rej and sc["complete"]:
                rejected.append((sc, rej[0] + " " + rej[1]))
            elif sc["complete"] and not any(v[0] == "OK" for v in vs):
                rejected.append((sc, "no verdict from the model runner"))
    for sc, why in rejected[:3]:
        res.violation("corr:Loop.step:%s" % fam,
                      "implementation log not accepted by the Loop model (%s)" % why[:400],
                      dict(kind="broken-correspondence", correspondence="LoopAccept.accept over Loop.step",
                           family=fam, seed=ctx["seed"], idx=sc["idx"], divergence=why, log=sc["lines"]),
                      found_input=False)
    for c in crashes[:3]:
        last = None
        for sc in split_scenarios(c["log"]):
            last = sc
        what = "worker process died"
        o = c["output"]
        if "blocked goroutines remain" in o:
            what = "goroutines of Loop left behind (synctest: blocked goroutines remain): Loop or a server never terminated"
        elif "deadlock" in o:
            what = "deadlock: every goroutine blocked"
        elif "panic:" in o:
            what = "panic: " + o.split("panic:", 1)[1].split("\n", 1)[0].strip()
        elif c["exit"] == 124:
            what = "hang: scenario did not finish"
        lines = last["lines"] if last and last["idx"] == c["idx"] else []
        # a monitor may already explain the partial log
        if lines:
            for m in MONITORS:
                r = m(dict(last, complete=False))
                if r:
                    what += "; " + r
                    break
        res.violation("%s:crash" % fam, what,
                      dict(kind="failing-history", family=fam, seed=c["seed"], idx=c["idx"], exit=c["exit"], what=what,
                           output=o[-4000:], log=lines), found_input=True)
    res.evaluations = evals
    res.distinct_nontrivial = len(distinct)
    res.samples = samples
    res.extra.update(schedule_policies=policies, log_item_distribution=kinds, finish_status_distribution=statuses,
                     scenarios_rejected=len(rejected), monitor_failures=nmon, worker_crashes=len(crashes),
                     traces_validated_against_model=evals - len(rejected) - nmon,
                     modes="Q (nohook: quiescent stepping with synctest.Wait), S (fifo / random: seeded releases of the "
                           "goroutines parked at loop.conn and loop.finish)")


def replay(ctx, res, fam):
    import json
    with open(ctx["replay"]) as f:
        rp = json.load(f)
    fam = rp.get("family", fam)
    idx = int(rp.get("idx", 0))
    seed = int(rp.get("seed", ctx["seed"]))
    ctx = dict(ctx, seed=seed)
    logs, crashes = _worker(fam, seed, idx, idx + 1, 99)
    judge_logs(ctx, res, fam, logs, crashes)
