"""Shared driver of the C15 / C16 correspondence checks (package handler).
Model: coq/hand/Handler.v; runner: ocaml/run_hand.ml; harness: harness/pure/c15.go, c16.go."""
import json
import os
from . import common as C

# number of input fields (after the line kind) per line kind; the rest of a line is
# derived data (params view, oracle answers) and the observation
INPUT_FIELDS = {"K": 1, "W": 4, "P": 5, "A": 3, "a": 1, "O": 3, "Ws": 5, "Ps": 6, "Wc": 7, "Pc": 8}


def input_of(line):
    f = line.split("\t")
    return "\t".join(f[:1 + INPUT_FIELDS.get(f[0], len(f) - 2)])


def run(ctx, res, cmd, pid, nontrivial, kind_of):
    ok, log = C.go_build_pure()
    if not ok:
        res.violation("corr:harness-build", "the harness does not build against the repository",
                      dict(kind="broken-correspondence", what="go build", log=log[-3000:]), found_input=False)
        return None
    cases = os.path.join(C.OUT, "%s-%d.cases" % (cmd, ctx["seed"]))
    replay_in = None
    if ctx["replay"]:
        with open(ctx["replay"]) as f:
            rp = json.load(f)
        replay_in = os.path.join(C.OUT, "%s-replay.in" % cmd)
        with open(replay_in, "w") as f:
            for c in rp.get("cases", []):
                f.write(c["input"] + "\n")
    rc, out = C.run_pure(cmd, cases, ctx["seed"], ctx["tier"], replay=replay_in)
    prog = cases + ".progress"
    if rc != 0 and os.path.exists(prog):
        # the Go runtime killed the harness (an unrecoverable fatal error) inside a concurrent case
        with open(prog) as f:
            inp = f.read().strip()
        res.violation(pid.lower() + ":fatal:" + C.sha(inp),
                      "the harness process died with a Go runtime fatal error while goroutines were calling one "
                      "wrapped handler concurrently with these params",
                      dict(kind="failing-input", cases=[dict(input=inp)], log=out[:1500] + "\n...\n" + out[-1500:],
                           replay_cmd="./check %s --replay <this file>" % pid), found_input=True)
        return None
    if rc != 0:
        res.violation("corr:harness-run", "the harness failed or crashed (exit %d)" % rc,
                      dict(kind="harness-failure", log=out[-3000:]), found_input=False)
        return None
    okm, mism, total, raw = C.run_model("run_hand", cases)
    if not okm:
        res.violation("corr:model-run", "the model runner failed", dict(kind="broken-correspondence", log=raw[-3000:]),
                      found_input=False)
        return None
    lines = C.read_cases(cases)
    res.evaluations = total
    nontriv = set()
    kinds = {}
    for l in lines:
        f = l.split("\t")
        k = kind_of(f)
        kinds[k] = kinds.get(k, 0) + 1
        if nontrivial(f):
            nontriv.add(input_of(l))
    res.distinct_nontrivial = len(nontriv)
    res.extra["outcome_distribution"] = dict(sorted(kinds.items()))
    res.extra["lines"] = len(lines)
    if "BADLINE" in raw:
        res.violation("corr:bad-line", "the model runner could not parse a case line",
                      dict(kind="broken-correspondence", log=raw[-2000:]), found_input=False)
    seen = set()
    for m in mism:
        line = lines[m["line"] - 1]
        inp = input_of(line)
        group = []
        if line[:2] in ("Ws", "Ps"):   # a sequence: the replay is the group up to the failing request
            gid = line.split("\t")[1].split(".")[0]
            i = m["line"] - 2
            while i >= 0 and lines[i][:2] == line[:2] and lines[i].split("\t")[1].split(".")[0] == gid:
                group.insert(0, dict(input=input_of(lines[i])))
                i -= 1
        exp, got = m["expected"], m["got"]
        if exp.startswith("ORACLEMISS"):
            key, what, found = "corr:oracle-miss", \
                "the model asks encoding/json a question the harness did not anticipate (harness and model disagree " \
                "on which params value is decoded)", False
        elif exp.startswith("Some:") or exp == "None":
            key, what, found = "assumption:struct-contract:" + C.sha(inp), \
                "encoding/json does not treat Positional's argument struct as the contract assumed by " \
                "c16_positional_accepts_exactly says", False
        elif got.startswith("X:"):
            key, what, found = pid.lower() + ":panic:" + C.sha(inp), "the adapter panicked on this input", True
        else:
            key, what, found = pid.lower() + ":" + C.sha(inp), \
                "the adapter's observable behaviour on this input differs from the specification", True
        if key in seen:
            continue
        seen.add(key)
        if len(seen) > 20:
            break
        res.violation(key, what,
                      dict(kind="failing-input" if found else "broken-correspondence",
                           cases=group + [dict(input=inp, expected=exp, got=got, line=line[:2000])],
                           replay_cmd="./check %s --replay <this file>" % pid), found_input=found)
    return lines
