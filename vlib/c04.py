"""C04 - client property; model coq/cli/CliModel.v, acceptor coq/cli/CliAccept.v (projection "c04"),
harness harness/conc/cli.go + cligen.go (family "cli:c04"), driver vlib/clilib.py."""
from . import clilib

TRUSTED = ["sync.Mutex critical sections are atomic and sequentially consistent (one model label per critical section of client.go)",
           "sync.WaitGroup, context cancellation (parent to child, first cause wins), 1-buffered channels closed by the first "
           "receiver: modelled by their documented semantics",
           "strconv.FormatInt(n, 10) is the standard library's decimal representation (Coq's Nat.to_uint)",
           "inbound records reach the model already parsed (coq/wire/Msg.v jmsg); the parser is the subject of C02/C13",
           "testing/synctest's definition of durable blocking (quiescence oracle); verif hook points cli.* (add-only, no data)",
           "harness canonicalises the records passed to Send with encoding/json (byte-level encoding is C13's subject)"]
ASSUMPTIONS = ["the peer keeps receiving (Send never blocks for ever)"]


def run(ctx, res):
    clilib.run_family(ctx, res, "cli:c04")
    res.rule = ("scenario = 1-5 concurrent Call/Batch/Notify operations (own goroutine, own context) against a scripted raw peer; "
                "the peer answers the ids it saw in a permutation, partitioned into objects and arrays, decorated with duplicates "
                "(differing payloads), unknown ids, \"1\" vs 1, 1.0, null/absent ids, malformed members (version, extra field, "
                "mixed, bad id, non-object), result+error, bare replies, server requests and notifications; goroutines parked at "
                "the cli.* scheduling points are released fifo (quiescent stepping) or by a seeded schedule; every log is "
                "replayed through the Coq client model (projection c04: records sent, values returned, OnNotify/OnCallback "
                "invocations, parked goroutines per point, pending count) and judged by the monitors (ids fresh, reply is the "
                "peer's for that id, batch order, one return per operation, channel discipline); every 6th scenario (outside "
                "the exhaustive range) runs in racing mode (no scheduler, hook points and the client's Logger yield, actions "
                "back to back without quiescence) and is judged by the monitors and crash / hang / leak detection only; "
                "non-trivial = distinct log in which a request was completed by a peer payload")
