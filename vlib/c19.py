"""C19 - HTTP Getter, query parsing, HTTP client channel.

Pure part: model coq/http/Query.v (+QStr.v); runner ocaml/run_query.ml; harness
harness/pure/c19.go (real jhttp.ParseQuery / ParseBasic / Getter against a real
local server through httptest.ResponseRecorder).

Stateful part: model coq/http/HttpChan.v (+HcAccept.v); runner ocaml/run_hc.ml;
harness harness/conc/hc.go (real jhttp.Channel over an in-process HTTPClient whose
Do is gated by the harness and whose bodies count open/close), driven by vlib/hclib.py."""
import json
import os
from . import common as C

TRUSTED = [
    "net/url and http.Request.ParseForm (the model starts from the decoded path and the key -> first value list the harness encoded)",
    "strconv.ParseFloat's value (only its language on decimal numerals and its overflow bound 2^1024-2^970 are modelled; "
    "the harness checks Go-side that Marshal(v) parses back to ParseFloat(text))",
    "encoding/json on the Go values produced (Marshal success is observed, json.Valid(body) is observed)",
    "the mapping method name -> outcome of the harness's own JSON-RPC handlers (ocaml/run_query.ml: srv)",
    "testing/synctest's notion of durable blocking (stateful part); the harness's HTTPClient and body wrappers",
]
ASSUMPTIONS = [
    "jhttp.Channel: Send and Close are not called concurrently and Close is called at most once "
    "(jrpc2.Client serialises them under its mutex; C10)",
    "every cli.Do eventually returns (c19_close_progress: otherwise Close waits for it)",
    "racing families (hc:race, hc:bridgerace) are judged by monitors only: Send/Notify bursts immediately followed by Close "
    "without quiescence have no totally ordered log for the model acceptor",
]


def _pure(ctx, res):
    seed, tier = ctx["seed"], ctx["tier"]
    ok, log = C.go_build_pure()
    if not ok:
        res.violation("corr:harness-build", "the pure harness does not build against /repo",
                      dict(kind="broken-correspondence", what="go build", log=log[-3000:]), found_input=False)
        return
    cases = os.path.join(C.OUT, "c19-%d.cases" % seed)
    replay_in = None
    if ctx["replay"]:
        with open(ctx["replay"]) as f:
            rp = json.load(f)
        if rp.get("part") == "hc":
            return
        replay_in = os.path.join(C.OUT, "c19-replay.in")
        with open(replay_in, "w") as f:
            for c in rp.get("cases", []):
                f.write(c["input"] + "\n")
    rc, out = C.run_pure("c19", cases, seed, tier, replay=replay_in)
    if rc != 0:
        res.violation("corr:harness-run", "the pure harness failed or crashed (exit %d)" % rc,
                      dict(kind="harness-failure", log=out[-3000:]), found_input=False)
        return
    okm, mism, total, raw = C.run_model("run_query", cases)
    if not okm or raw.strip():
        res.violation("corr:model-run", "the model runner failed", dict(kind="broken-correspondence", log=raw[-3000:]),
                      found_input=False)
        return
    lines = C.read_cases(cases)
    res.evaluations += total
    nontriv = set()
    kinds = {}
    flagged = []
    for i, l in enumerate(lines):
        f = l.split("\t")
        o = f[-1]
        if f[0] == "V":
            k = "V:" + o.split(":")[0].split("!")[0]
            if not o.startswith("lit:"):
                nontriv.add(l)
        elif f[0] == "P":
            k = "P:" + ("ok" if "ok:" in o else "err")
            nontriv.add(l)
        elif f[0] == "Q":
            k = "Q:" + ("err" if o.startswith("q=err") else "ok")
            if f[3] != "-":
                nontriv.add(l)
        else:
            k = "G:" + o.split(":")[0]
            nontriv.add(l)
        kinds[k] = kinds.get(k, 0) + 1
        # property monitor on the implementation's own observation, independent of the model:
        # no panic, parameters marshalable, body valid JSON with the JSON content type
        if "panic" in o or "!" in o or "unknown" in o or "wrong-" in o:
            flagged.append(i)
    res.distinct_nontrivial += len(nontriv)
    res.extra["pure_outcome_distribution"] = kinds
    res.extra["exhaustive_families"] = ("every value of length <= %d over {\",',+,-,0,1,9,.,e,x,_}; inf/nan/infinity/true/false/null in "
                               "every letter case with signs; every path of length <= %d over {/,a,%%2F,.}"
                               % ((5, 7) if tier == "thorough" else (4, 5)))
    res.samples += [l for l in lines if "\tfloat" in l][:1] + [l for l in lines if "\tbytes:" in l][:1] + \
                   [l for l in lines if l.startswith("Q") and "ok:" in l][:1] + [l for l in lines if l.startswith("G")][:2]
    seen = set()
    for m in mism[:3]:  # the driver prints at most 5 violations; leave room for the stateful part
        line = lines[m["line"] - 1]
        seen.add(m["line"] - 1)
        inp = "\t".join(line.split("\t")[:-1])
        res.violation("c19:" + C.sha(inp),
                      "ParseQuery/ParseBasic/Getter disagrees with the documented rules on this request",
                      dict(kind="failing-input", part="pure",
                           cases=[dict(input=inp, expected=m["expected"], got=m["got"])],
                           replay_cmd="./check C19 --replay <this file>"))
    for i in flagged[:2]:
        if i in seen:
            continue
        line = lines[i]
        inp = "\t".join(line.split("\t")[:-1])
        res.violation("c19:" + C.sha(inp), "monitor: panic / unmarshalable parameters / invalid JSON body",
                      dict(kind="failing-input", part="pure", cases=[dict(input=inp, got=line.split("\t")[-1])],
                           replay_cmd="./check C19 --replay <this file>"))


def run(ctx, res):
    res.rule = ("pure: one real ParseQuery/ParseBasic/Getter.ServeHTTP evaluation per case; non-trivial = distinct case that is "
                "not a plain literal-string value (values typed as string/number/constant/bytes/error, all path, form and "
                "getter cases). stateful: one jhttp.Channel scenario per case; non-trivial = distinct (scenario, log) with at "
                "least one Send and a Close, or (family hc:bridge) with at least one client operation compared between "
                "jhttp.Channel+Bridge and channel.Direct, or (racing families) with at least one Send/Notify before the immediate Close")
    _pure(ctx, res)
    try:
        from . import hclib
    except ImportError:
        res.notes.append("stateful part (jhttp.Channel) not built")
        return
    hclib.run(ctx, res)
