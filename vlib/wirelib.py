"""Driver shared by C13 and the pure part of C02: harness/pure commands `c13`, `c02pure`, `jsonglue`
against the extracted models run by ocaml/run_wire.ml and ocaml/run_json.ml."""
import json
import os
from . import common as C

KIND_NAMES = {
    "P": "ParseRequests vs Wire.parse_requests / allowed_errs",
    "E": "emitted bytes vs Wire.enc_msgs / marshal_error / response_marshal (+ json.Valid, utf8.Valid, no control byte)",
    "B": "jhttp.Bridge reply body vs Wire.bridge_marshal_error / response_marshal",
    "Q": "json.Marshal(string) vs Json.escape_string", "C": "json.Marshal(RawMessage) vs Json.compact",
    "P_": "json.Compact vs Json.compact_plain", "V": "json.Valid vs Json.valid", "R": "Unmarshal RawMessage vs Json.raw_value",
    "A": "Unmarshal []RawMessage vs Json.raw_elements", "M": "Unmarshal map vs Json.raw_members", "S": "Unmarshal string vs Json.unmarshal_string",
    "U": "utf8.Valid vs Json.valid_utf8",
}


def _replay_lines(ctx, which):
    """Input lines of a replay file for the given harness command (None if not replaying)."""
    if not ctx["replay"]:
        return None
    with open(ctx["replay"]) as f:
        rp = json.load(f)
    p = os.path.join(C.OUT, "%s-replay-%s.in" % (ctx["pid"].lower(), which))
    n = 0
    with open(p, "w") as f:
        for c in rp.get("cases", []):
            if c.get("family", "wire") == which:
                f.write(c["input"] + "\n")
                n += 1
    return p if n else ""


def _run_family(ctx, res, cmd, runner, n, family):
    """Returns (lines, mismatches) or None after recording a violation."""
    cases = os.path.join(C.OUT, "%s-%s-%d.cases" % (ctx["pid"].lower(), cmd, ctx["seed"]))
    rin = _replay_lines(ctx, family)
    if rin == "":
        return [], []
    rc, out = C.run_pure(cmd, cases, ctx["seed"], ctx["tier"], n=n, replay=rin)
    if rc != 0:
        res.violation("corr:harness-run:" + cmd, "the harness failed or crashed (exit %d)" % rc,
                      dict(kind="harness-failure", log=out[-3000:]), found_input=False)
        return None
    okm, mism, total, raw = C.run_model(runner, cases)
    if not okm:
        res.violation("corr:model-run:" + cmd, "the model runner failed", dict(kind="broken-correspondence", log=raw[-3000:]),
                      found_input=False)
        return None
    lines = C.read_cases(cases)
    if total != len(lines) or "BADLINE" in raw:
        res.violation("corr:model-run:" + cmd, "the model runner did not account for every case line",
                      dict(kind="broken-correspondence", log=raw[-2000:], total=total, lines=len(lines)), found_input=False)
        return None
    return lines, mism


def run_wire(ctx, res, which):
    """which = 'c13' (everything) or 'c02pure' (parse side only)."""
    pid = ctx["pid"]
    ok, log = C.go_build_pure()
    if not ok:
        res.violation("corr:harness-build", "the harness does not build against the repository",
                      dict(kind="broken-correspondence", what="go build", log=log[-3000:]), found_input=False)
        return
    thorough = ctx["tier"] == "thorough"
    fams = [(which, "run_wire", 2000 if not thorough else 4000, "wire")]
    fams.append(("jsonglue", "run_json", 600 if not thorough else 1500, "json"))
    dist, nontriv, samples = {}, set(), []
    total = 0
    out_domain = 0
    for cmd, runner, n, family in fams:
        r = _run_family(ctx, res, cmd, runner, n, family)
        if r is None:
            return
        lines, mism = r
        total += len(lines)
        for l in lines:
            f = l.split("\t")
            k = f[0]
            if family == "json":
                key = "json:" + k
                nt = True
            elif k == "P":
                o = f[-1]
                cls = "top-error" if o.startswith("T:") else ("multi-outcome" if "|" in o else
                                                               ("flagged" if (":" in o) else "all-valid"))
                key = "P:" + cls
                nt = not o.startswith("T:")
            elif k == "E":
                key = "E:" + f[1] + (":batch" if f[2] == "1" else "")
                if f[-1].startswith("FAIL"):
                    key += ":fail"
                elif not f[-1].endswith(":111"):
                    key += ":outside-domain"
                    out_domain += 1
                nt = True
            else:
                key = "B:" + f[-1].split(":")[0]
                nt = True
            dist[key] = dist.get(key, 0) + 1
            if nt:
                nontriv.add(l)
        samples += [l[:300] for l in lines if l.startswith("E\t")][:2] + [l[:300] for l in lines[:1]]
        for m in mism[:10]:
            line = lines[m["line"] - 1]
            f = line.split("\t")
            inp = "\t".join(f[:-1])
            kind = f[0] if family == "wire" else ("P_" if f[0] == "P" else f[0])
            what = "model and implementation disagree: " + KIND_NAMES.get(kind, kind)
            found = True
            if family == "wire" and f[0] == "E" and m["expected"].endswith(":111") and not m["got"].endswith(":111") \
                    and not m["got"].startswith("FAIL"):
                what = "emitted message is not one-line valid UTF-8 JSON (flags json.Valid/utf8.Valid/no-control = %s)" % m["got"][-3:]
            res.violation("%s:%s:%s" % (pid.lower(), family, C.sha(inp)), what,
                          dict(kind="failing-input", family=family, corr=KIND_NAMES.get(kind, kind),
                               cases=[dict(family=family, input=inp, expected=m["expected"][:4000], got=m["got"][:4000])],
                               replay_cmd="./check %s --replay <this file>" % pid), found_input=found)
    res.evaluations = total
    res.distinct_nontrivial = len(nontriv)
    res.samples = samples
    res.extra["outcome_distribution"] = dict(sorted(dist.items()))
    res.extra["outside_quantifier_cases"] = out_domain
    res.rule = ("wire: (P) ParseRequests executed 6x per text (map order varies) on a fixed corpus, the pairwise cover + a sample of the "
                "per-field variant product (jsonrpc x id x method x params x result x error x extra x duplicate-key; thorough: the whole product), "
                "2-member batches over a 40-member basis, random values and byte-mutated members: every observed outcome must equal the model's "
                "parse in id/method/params and report an error from the model's allowed set; "
                "(E) abstract messages with generated method names (unicode, quotes, controls, HTML metacharacters, U+2028/9), ids (numbers incl. "
                "2^63-scale/fractions/exponents, strings with escapes and surrogates), values (nested, big numbers, raw JSON with arbitrary white "
                "space and newlines, Go values), errors (codes, messages, data) pushed through the real client (Call/Notify/Batch), server "
                "(responses, batches, Notify/Callback push), Response.MarshalJSON and json.Marshal(*Error); captured bytes compared byte for byte "
                "with the model's encoding and checked json.Valid / utf8.Valid / no byte < 0x20, then fed back to ParseRequests; "
                "(B) jhttp.Bridge bodies for invalid and valid posts; "
                "json: every encoding/json entry point of the model on a fixed corpus, ALL 1- and 2-byte strings through json.Marshal(string), "
                "boundary code points, ill-formed UTF-8, \\u escapes and surrogates, nesting around 10000, generated and mutated texts. "
                "non-trivial = distinct case line other than a top-level parse error")
