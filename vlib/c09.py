"""C09 - server property; model coq/srv/SrvModel.v, acceptor coq/srv/Accept.v (projection "c09"),
harness harness/conc (family "c09"), driver vlib/srvlib.py."""
from . import srvlib
from . import clilib

TRUSTED = ["sync.Mutex critical sections are atomic and sequentially consistent (one model label per critical section)",
           "sync.WaitGroup, x/sync/semaphore.Weighted (FIFO, cancelled contexts fail), context cancellation, buffered channels: "
           "modelled by their documented semantics",
           "testing/synctest's definition of durable blocking (quiescence oracle); verif hook points (add-only, no data)",
           "harness canonicalises sent records with encoding/json (byte-level encoding is C13's subject)"]
ASSUMPTIONS = ["the peer keeps receiving (Send never blocks for ever)", "handlers return when the harness lets them (gated handlers)",
               "Start is called only after WaitStatus returned"]


def run(ctx, res):
    if ctx.get("replay"):
        import json
        with open(ctx["replay"]) as f:
            fam = json.load(f).get("family", "c09")
        if str(fam).startswith("cli:"):
            return clilib.run_family(ctx, res, "cli:c09")
        return srvlib.run_family(ctx, res, "c09")
    # the library's own Client as the peer that answers the pushes ("client failures as *Error"): family cli:c09 of the
    # client harness (callback handlers that succeed, fail with coded/uncoded errors, return unencodable values, panic),
    # logs replayed through the Coq client model
    clilib.run_family(ctx, res, "cli:c09", n_quick=1500, n_thorough=30000)
    ev2, dn2, samples2, extra2 = res.evaluations, res.distinct_nontrivial, list(res.samples or []), dict(res.extra)
    srvlib.run_family(ctx, res, "c09")
    res.extra = dict(server_side=dict(res.extra), client_side=extra2)
    res.evaluations += ev2
    res.distinct_nontrivial += dn2
    res.samples = list(res.samples or [])[:2] + samples2[:1]
    res.rule = ("scenario = seeded history of environment actions (records fed: single/batch, calls, notifications, each "
                "single-defect invalid member, reply-shaped members, non-JSON; handler completions with results/errors; "
                "CancelRequest, Stop, Notify/Callback, context ends, Recv errors, Send failures, restart) interleaved with "
                "releases of goroutines parked at the verif scheduling points (fifo = quiescent stepping, random = seeded "
                "schedule); family 'c09' weights the actions towards this property; every log is replayed through the Coq server "
                "model (projection 'c09') and judged by the property monitors; non-trivial = distinct log satisfying the family's "
                "rule (srvlib.nontrivial); client side: family cli:c09 of the client harness (server requests and callback-handler "
                "outcomes above all), logs replayed through the Coq client model")
