"""C06 - server property; model coq/srv/SrvModel.v, acceptor coq/srv/Accept.v (projection "c06"),
harness harness/conc (family "c06"), driver vlib/srvlib.py."""
from . import srvlib

TRUSTED = ["sync.Mutex critical sections are atomic and sequentially consistent (one model label per critical section)",
           "sync.WaitGroup, x/sync/semaphore.Weighted (FIFO, cancelled contexts fail), context cancellation, buffered channels: "
           "modelled by their documented semantics",
           "testing/synctest's definition of durable blocking (quiescence oracle); verif hook points (add-only, no data)",
           "harness canonicalises sent records with encoding/json (byte-level encoding is C13's subject)"]
ASSUMPTIONS = ["the peer keeps receiving (Send never blocks for ever)", "handlers return when the harness lets them (gated handlers)",
               "Start is called only after WaitStatus returned"]


def run(ctx, res):
    srvlib.run_family(ctx, res, "c06")
    if not ctx.get("replay"):
        # the limit is per server: servers built from one *ServerOptions value do not share slots (scripted probe)
        from . import common as C
        C.run_probes(res, "C06", ["shared-options-own-limits"])
    res.rule = ("scenario = seeded history of environment actions (records fed: single/batch, calls, notifications, each "
                "single-defect invalid member, reply-shaped members, non-JSON; handler completions with results/errors; "
                "CancelRequest, Stop, Notify/Callback, context ends, Recv errors, Send failures, restart) interleaved with "
                "releases of goroutines parked at the verif scheduling points (fifo = quiescent stepping, random = seeded "
                "schedule); family 'c06' weights the actions towards this property; every log is replayed through the Coq server "
                "model (projection 'c06') and judged by the property monitors; non-trivial = distinct log satisfying the family's "
                "rule (srvlib.nontrivial)")
