"""C16 - handler.Positional, Args, Obj.  Model: coq/hand/Handler.v; runner: ocaml/run_hand.ml;
harness: harness/pure/c16.go."""
from . import handlib

TRUSTED = [
    "encoding/json and reflect are not modelled: the oracles of the model (decode of the synthetic argument struct, "
    "decode of single elements, decode into a target holding a value, encode) are instantiated per case by the harness "
    "calling encoding/json directly and handed to the model runner in the case line",
    "the harness declares the synthetic argument struct of Positional independently (one field per argument, the given "
    "names as JSON keys) to put its questions to encoding/json",
]
ASSUMPTIONS = [
    "c16_positional_accepts_exactly assumes the documented behaviour of encoding/json on the synthetic struct "
    "(struct_contract, zero_contract) for usable name lists and params that address no argument twice; the run "
    "validates it on every strict struct-level oracle answer (reported as assumption:struct-contract if it fails)",
    "usable names: non-empty, not \"-\", ASCII characters encoding/json accepts in a tag, distinct ignoring ASCII case",
    "after a FAILED Obj.UnmarshalJSON the targets already written depend on Go's map iteration order: the observed "
    "state must be one of the states the model admits",
]


def kind_of(f):
    o = f[-1]
    if f[0] == "Pc":
        return "Pc:procs=%s:%s" % (f[7], "ok" if "+" not in o and "X:" not in o else "MIXED")
    if f[0] == "Ps":
        return "Ps:%s:%s" % (f[7][0], o[:2] if o[0] == "C" else o.split(":")[0])
    if f[0] == "P":
        return "P:%s:%s" % (f[6][0], o[:2] if o[0] == "C" else o.split(":")[0])
    if f[0] in ("A", "O"):
        return "%s:%s:%s" % (f[0], f[4][0], o[0])
    return "a:" + o[0]


def nontrivial(f):
    o = f[-1]
    if f[0] == "Pc":
        return True
    if f[0] == "Ps":
        return not f[1].endswith(".0")
    if f[0] == "P":
        return f[6] != "A" and not o.startswith("err:")
    if f[0] == "A":
        return f[4][0] == "R"
    if f[0] == "O":
        return f[4][0] == "O"
    return f[1] != "."


def run(ctx, res):
    lines = handlib.run(ctx, res, "c16", "C16", nontrivial, kind_of)
    res.rule = ("P: handler.Positional on generated functions of arity 0-6 (argument kinds from the C15 grammar) with "
                "usable and unusable name lists (empty, \"-\", commas, non-ASCII, duplicates, case duplicates, wrong count) "
                "x AllowArray/SetStrict settings x params (arrays of every length 0..n+2, wrong element types, nulls, "
                "rotations; objects over subsets (all subsets up to 12 per case, thorough 64)/supersets of the names, case "
                "variants, duplicate keys, Go field names P_i, wrong-typed values; absent, null, scalars, malformed); "
                "A/a: handler.Args over 0-6 targets (nil slots, scalars, slices, maps, pointers, structs, any) via "
                "UnmarshalJSON and UnmarshalParams with arrays of every length around n, and MarshalJSON; O: handler.Obj "
                "over 0-5 keyed targets with objects over subsets of the keys, unknown keys, duplicates.  Compared: "
                "Positional's error class, calls and captured arguments, error code, targets after the call.  "
                "Ps: ONE Positional handler value serves a list of requests in order (rejected-after-partial-decoding "
                "requests followed by valid requests with missing names / null elements / {} / absent params); Pc: ONE "
                "Positional handler value called by 8 goroutines at once (barrier start, GOMAXPROCS 1..16) with 12 params "
                "texts carrying pairwise different values; every request predicted by itself.  "
                "non-trivial = distinct P line with params on an accepted function, A line with array params, O line with "
                "object params, a line with at least one target, Ps line after the first of its sequence, Pc line")
    if lines:
        res.samples = ([l[:400] for l in lines if l.startswith("P") and "\tC1:" in l][:2] +
                       [l[:400] for l in lines if l.startswith("A\t") and l.split("\t")[-1].startswith("1|")][:1] +
                       [l[:400] for l in lines if l.startswith("O\t") and l.split("\t")[-1].startswith("1|")][:1] +
                       [l[:400] for l in lines if l.startswith("a\t")][:1])
