"""C17 - method dispatch.  Model: coq/disp/Dispatch.v; runner: ocaml/run_disp.ml;
harness: harness/pure/c17.go (real server + client per assigner tree)."""
import os
from . import common as C

TRUSTED = ["Go harness interprets the same assigner-tree text as the model runner; handlers identify themselves by tag"]
ASSUMPTIONS = ["method names are non-empty valid UTF-8 (empty names are C02's domain)",
               "Go map keys are unique, so the model's first-match lookup coincides with map lookup"]


def run(ctx, res):
    ok, log = C.go_build_pure()
    if not ok:
        res.violation("corr:harness-build", "the harness does not build against /repo",
                      dict(kind="broken-correspondence", what="go build", log=log[-3000:]), found_input=False)
        return
    cases = os.path.join(C.OUT, "c17-%d.cases" % ctx["seed"])
    replay_in = None
    if ctx["replay"]:
        import json
        with open(ctx["replay"]) as f:
            rp = json.load(f)
        replay_in = os.path.join(C.OUT, "c17-replay.in")
        with open(replay_in, "w") as f:
            for c in rp.get("cases", []):
                f.write(c["input"] + "\n")
    rc, out = C.run_pure("c17", cases, ctx["seed"], ctx["tier"], replay=replay_in)
    if rc != 0:
        res.violation("corr:harness-run", "the harness failed or crashed (exit %d)" % rc,
                      dict(kind="harness-failure", log=out[-3000:]), found_input=False)
        return
    okm, mism, total, raw = C.run_model("run_disp", cases)
    if not okm:
        res.violation("corr:model-run", "the model runner failed", dict(kind="broken-correspondence", log=raw[-3000:]),
                      found_input=False)
        return
    lines = C.read_cases(cases)
    res.evaluations = total
    nontriv = set()
    kinds = {}
    for l in lines:
        f = l.split("\t")
        o = f[-1]
        k = f[0] + ":" + (o[0] if f[0] == "A" else "names")
        kinds[k] = kinds.get(k, 0) + 1
        if not (f[0] == "A" and o == "N"):
            nontriv.add(l)
    res.distinct_nontrivial = len(nontriv)
    res.rule = ("assigner trees (Map / ServiceMap / non-Namer, depth 0-3, keys over the name alphabet incl. '', '.', 'rpc', "
                "unicode) x both DisableBuiltin settings x {every name up to length 4 (thorough: 5) over {r,p,c,.,R,a}, "
                "names derived from the tree and perturbed, rpc.* variants}; each case is one real Call through a real "
                "server; non-trivial = distinct case whose outcome is a handler, the built-in, or a Names/serverInfo list "
                "(plain method-not-found cases are counted in evaluations only)")
    res.extra["outcome_distribution"] = kinds
    res.samples = [l for l in lines if "\tH" in l][:3] + [l for l in lines if l.startswith("M")][:2] + lines[:2]
    # every observable here is at the level of the property (which handler ran / not found /
    # names listed), so a disagreement with the model is a violation of C17 on that input
    for m in mism[:20]:
        line = lines[m["line"] - 1]
        inp = "\t".join(line.split("\t")[:-1])
        res.violation("c17:" + C.sha(inp), "dispatch of this name differs from the specification",
                      dict(kind="failing-input", cases=[dict(input=inp, expected=m["expected"], got=m["got"])],
                           replay_cmd="./check C17 --replay <this file>"))
