"""Shared machinery of the /verif checks: building the Coq development, checking
the property files, building the harnesses and model runners, evidence and
violation reporting.  Property-specific logic lives in vlib/cXX.py."""
import hashlib
import json
import os
import re
import subprocess
import sys
import time

ROOT = os.path.dirname(os.path.dirname(os.path.abspath(__file__)))
COQ = os.path.join(ROOT, "coq")
OCAML = os.path.join(ROOT, "ocaml")
BUILD = os.path.join(ROOT, "build")
OUT = os.path.join(ROOT, "out")
EVID = os.path.join(ROOT, "evidence")
REPO = os.environ.get("VERIF_REPO", "/repo")  # VERIF_REPO: self-tests against a mutated copy

GOENV = dict(os.environ, GOFLAGS="-mod=mod", GOPROXY="off", GOSUMDB="off",
             GOTOOLCHAIN="local", CGO_ENABLED="0")

FORBIDDEN = re.compile(
    r"\b(Admitted|admit|Axiom|Axioms|Parameter|Parameters|Conjecture|Conjectures|Admit Obligations|"
    r"Unset Guard Checking|Unset Positivity Checking|Unset Universe Checking|bypass_check|"
    r"type-in-type|impredicative-set|native_compute)\b")

# Axioms of the standard library that a theorem may depend on (each is named in
# the evidence when it occurs).  Nothing else is accepted.
STDLIB_AXIOMS = {
    "Coq.Logic.FunctionalExtensionality.functional_extensionality_dep",
    "functional_extensionality_dep",
    "Coq.Logic.Classical_Prop.classic", "classic",
    "Coq.Logic.ProofIrrelevance.proof_irrelevance", "proof_irrelevance",
    "Coq.Logic.JMeq.JMeq_eq", "JMeq_eq",
    "Coq.Logic.Eqdep.Eq_rect_eq.eq_rect_eq", "Eqdep.Eq_rect_eq.eq_rect_eq", "eq_rect_eq",
}


def sh(cmd, cwd=None, timeout=1200, env=None, stdin=None):
    """Run a command; returns (rc, combined output). rc=124 on timeout."""
    try:
        p = subprocess.run(cmd, cwd=cwd, env=env, input=stdin, stdout=subprocess.PIPE,
                           stderr=subprocess.STDOUT, timeout=timeout, shell=isinstance(cmd, str))
        return p.returncode, p.stdout.decode("utf-8", "replace")
    except subprocess.TimeoutExpired as e:
        out = e.stdout.decode("utf-8", "replace") if e.stdout else ""
        return 124, out + "\n[timeout after %ss]" % timeout


def ensure_dirs():
    for d in (BUILD, OUT, EVID, os.path.join(OUT, "replays")):
        os.makedirs(d, exist_ok=True)


# ---------------------------------------------------------------------------
# Coq side

def coq_sources():
    """All .v files of the development (relative to coq/), except generated extraction drivers."""
    files = []
    for dirpath, dirs, names in os.walk(COQ):
        dirs.sort()
        for n in sorted(names):
            if n.endswith(".v"):
                rel = os.path.relpath(os.path.join(dirpath, n), COQ)
                if rel.startswith("extract" + os.sep):
                    continue
                files.append(rel)
    return files


def coq_project_files():
    return coq_sources()


def write_coq_project():
    """_CoqProject is generated: every .v under coq/ (coqdep orders them)."""
    text = "-Q . JV\n-arg -w -arg -notation-overridden,-deprecated-hint-without-locality,-deprecated-instance-without-locality\n" + "\n".join(coq_sources()) + "\n"
    p = os.path.join(COQ, "_CoqProject")
    old = open(p).read() if os.path.exists(p) else None
    if old != text:
        with open(p, "w") as f:
            f.write(text)


def coq_make(clean=False):
    """Full .vo build of the development (never -vos). Returns (ok, log)."""
    write_coq_project()
    if not os.path.exists(os.path.join(COQ, "Makefile")) or \
            os.path.getmtime(os.path.join(COQ, "Makefile")) < os.path.getmtime(os.path.join(COQ, "_CoqProject")):
        rc, out = sh(["coq_makefile", "-f", "_CoqProject", "-o", "Makefile"], cwd=COQ)
        if rc != 0:
            return False, out
    if clean:
        sh(["make", "clean"], cwd=COQ)
    rc, out = sh(["make", "-j16"], cwd=COQ, timeout=3000)
    return rc == 0, out


def coq_audit():
    """Grep the development for anything that declares an axiom or switches off a check."""
    bad = []
    for dirpath, _, names in os.walk(COQ):
        for n in names:
            if not n.endswith(".v"):
                continue
            p = os.path.join(dirpath, n)
            with open(p, encoding="utf-8") as f:
                text = f.read()
            # strip comments (non-nested is enough: the development does not nest them)
            stripped = re.sub(r"\(\*.*?\*\)", " ", text, flags=re.S)
            for i, line in enumerate(stripped.split("\n"), 1):
                if FORBIDDEN.search(line):
                    bad.append("%s:%d: %s" % (os.path.relpath(p, ROOT), i, line.strip()))
                if re.match(r"\s*(Variable|Variables|Hypothesis|Hypotheses|Context)\b", line):
                    # allowed only inside a Section: checked structurally below
                    pass
            # Variables / Hypotheses outside any Section
            depth = 0
            for i, line in enumerate(stripped.split("\n"), 1):
                if re.match(r"\s*Section\b", line):
                    depth += 1
                elif re.match(r"\s*End\b", line) and depth > 0:
                    depth -= 1
                elif depth == 0 and re.match(r"\s*(Variable|Variables|Hypothesis|Hypotheses|Context)\b", line):
                    bad.append("%s:%d: %s (outside a Section)" % (os.path.relpath(p, ROOT), i, line.strip()))
    return bad


def props_check(pid):
    """Recompile coq/props/<pid>.v and parse Print Assumptions.
    Returns dict(ok, obligations, discharged, theorems=[{name, axioms}], log)."""
    src = os.path.join(COQ, "props", pid + ".v")
    res = dict(ok=False, obligations=0, discharged=0, theorems=[], log="", partial=[])
    if not os.path.exists(src):
        res["log"] = "missing " + src
        return res
    with open(src, encoding="utf-8") as f:
        text = f.read()
    stripped = re.sub(r"\(\*.*?\*\)", " ", text, flags=re.S)
    names = re.findall(r"^\s*Theorem\s+([A-Za-z0-9_']+)", stripped, flags=re.M)
    printed = re.findall(r"^\s*Print Assumptions\s+([A-Za-z0-9_']+)\s*\.", stripped, flags=re.M)
    res["obligations"] = len(names)
    # the property files may contain nothing but restatements closed by `exact`
    body_ok = True
    for m in re.finditer(r"Proof\.(.*?)Qed\.", stripped, flags=re.S):
        if not re.fullmatch(r"\s*exact\s+[^.]*\.\s*", m.group(1) + "") and \
                not re.fullmatch(r"\s*exact\s+\(?[\s\S]*?\)?\.\s*", m.group(1)):
            body_ok = False
    rc, out = sh(["coqc", "-Q", ".", "JV", os.path.join("props", pid + ".v")], cwd=COQ, timeout=900)
    res["log"] = out[-4000:]
    if rc != 0:
        return res
    # Print Assumptions output, in order
    blocks = []
    cur = None
    for line in out.split("\n"):
        if line.startswith("Closed under the global context"):
            blocks.append([])
            cur = None
        elif line.startswith("Axioms:"):
            cur = []
            blocks.append(cur)
        elif cur is not None and line.strip():
            m = re.match(r"^([A-Za-z0-9_.']+)\s*:", line)
            if m:
                cur.append(m.group(1))
    ok = body_ok and printed == names and len(blocks) == len(names)
    disc = 0
    for i, n in enumerate(names):
        ax = blocks[i] if i < len(blocks) else ["<no Print Assumptions output>"]
        good = all(a in STDLIB_AXIOMS for a in ax)
        if good:
            disc += 1
        else:
            ok = False
        res["theorems"].append(dict(name=n, axioms=ax))
        if n.endswith("_partial"):
            res["partial"].append(n)
    res["discharged"] = disc
    res["ok"] = ok and disc == len(names) and len(names) > 0
    if not body_ok:
        res["log"] += "\n[props file contains a proof that is not a bare `exact`]"
    return res


def coqchk(pid):
    """Independent re-check of the compiled property file (thorough tier); cached per .vo hash."""
    vo = os.path.join(COQ, "props", pid + ".vo")
    h = hashlib.sha256()
    for f in sorted(coq_project_files()):
        p = os.path.join(COQ, f[:-2] + ".vo")
        if os.path.exists(p):
            with open(p, "rb") as fh:
                h.update(fh.read())
    cache = os.path.join(BUILD, "coqchk-%s-%s.txt" % (pid, h.hexdigest()[:16]))
    if os.path.exists(cache):
        with open(cache) as f:
            return True, f.read()
    rc, out = sh(["coqchk", "-silent", "-o", "-Q", ".", "JV", "JV.props." + pid], cwd=COQ, timeout=3600)
    if rc == 0:
        with open(cache, "w") as f:
            f.write(out)
    return rc == 0, out


# ---------------------------------------------------------------------------
# Model runners (extraction + OCaml)

def _newest(paths):
    return max((os.path.getmtime(p) for p in paths if os.path.exists(p)), default=0)


def write_extract_v():
    """build/Extract.v is generated from the pieces coq/extract/*.list."""
    imports, names = [], []
    d = os.path.join(COQ, "extract")
    for n in sorted(os.listdir(d)):
        if not n.endswith(".list"):
            continue
        with open(os.path.join(d, n)) as f:
            for line in f:
                line = line.strip()
                if not line or line.startswith("#"):
                    continue
                if line.startswith("From") or line.startswith("Require"):
                    if line not in imports:
                        imports.append(line)
                elif line not in names:
                    names.append(line)
    text = ("(* generated by vlib/common.py from coq/extract/*.list - ExtrOcamlBasic only, no Extract Constant *)\n"
            "From Coq Require Import Extraction ExtrOcamlBasic.\n" + "\n".join(imports) +
            "\nExtraction Language OCaml.\nSeparate Extraction\n  " + "\n  ".join(names) + ".\n")
    p = os.path.join(BUILD, "Extract.v")
    old = open(p).read() if os.path.exists(p) else None
    if old != text:
        with open(p, "w") as f:
            f.write(text)
    return p


def write_dune():
    names = sorted(n[:-3] for n in os.listdir(OCAML) if n.startswith("run_") and n.endswith(".ml"))
    text = "(executables\n (names %s)\n (libraries model str)\n (ocamlopt_flags (:standard -O3 -unboxed-types))\n (flags (:standard -w -a)))\n" % " ".join(names)
    text = "(executables\n (names %s)\n (libraries model str)\n (flags (:standard -w -a)))\n" % " ".join(names)
    p = os.path.join(OCAML, "dune")
    old = open(p).read() if os.path.exists(p) else None
    if old != text:
        with open(p, "w") as f:
            f.write(text)


def ocaml_build():
    """Extract the models (when a .vo is newer than the last extraction) and build the runners."""
    ensure_dirs()
    gen = os.path.join(OCAML, "gen")
    os.makedirs(gen, exist_ok=True)
    stamp = os.path.join(gen, ".stamp")
    ev = write_extract_v()
    write_dune()
    vos = [os.path.join(COQ, f[:-2] + ".vo") for f in coq_project_files()]
    srcs = vos + [ev]
    if not os.path.exists(stamp) or os.path.getmtime(stamp) < _newest(srcs):
        for n in os.listdir(gen):
            if n.endswith(".ml") or n.endswith(".mli"):
                os.remove(os.path.join(gen, n))
        rc, out = sh(["coqc", "-Q", COQ, "JV", ev], cwd=gen, timeout=900)
        if rc != 0:
            return False, "extraction failed:\n" + out
        with open(stamp, "w") as f:
            f.write(str(time.time()))
    rc, out = sh(["dune", "build", "--root", "."], cwd=OCAML, timeout=900)
    if rc != 0:
        return False, "dune build failed:\n" + out
    return True, out


def runner(name):
    return os.path.join(OCAML, "_build", "default", name + ".exe")


def run_model(name, cases_path, timeout=1800, args=()):
    """Run an extracted-model runner over a case file. Returns (ok, mismatches, total, raw)."""
    with open(cases_path, "rb") as f:
        data = f.read()
    rc, out = sh([runner(name)] + list(args), stdin=data, timeout=timeout)
    mism, total, done = [], 0, False
    other = []
    for line in out.split("\n"):
        if line.startswith("MISMATCH\t"):
            parts = line.split("\t")
            mism.append(dict(line=int(parts[1]), expected=parts[2] if len(parts) > 2 else "",
                             got=parts[3] if len(parts) > 3 else ""))
        elif line.startswith("DONE\t"):
            done = True
            for kv in line.split("\t")[1:]:
                k, v = kv.split("=")
                if k == "total":
                    total = int(v)
                elif k == "mismatches":
                    nm = int(v)
        elif line.strip():
            other.append(line)
    ok = rc == 0 and done
    return ok, mism, total, out if not ok else "\n".join(other)


# ---------------------------------------------------------------------------
# Go harnesses (always rebuilt from /repo's working tree)

def _go_build(d, cmd, go="go"):
    sh(["cp", os.path.join(REPO, "go.sum"), os.path.join(d, "go.sum")])
    modp = os.path.join(d, "go.mod")
    orig = open(modp).read()
    try:
        if REPO != "/repo":
            with open(modp, "w") as f:
                f.write(orig.replace("=> /repo", "=> " + REPO))
        rc, out = sh([go] + cmd, cwd=d, env=GOENV, timeout=900)
    finally:
        if REPO != "/repo":
            with open(modp, "w") as f:
                f.write(orig)
    return rc == 0, out


def go_build_pure():
    return _go_build(os.path.join(ROOT, "harness", "pure"),
                     ["build", "-tags", "verif", "-o", os.path.join(BUILD, "pure"), "."])


def go_build_conc():
    return _go_build(os.path.join(ROOT, "harness", "conc"),
                     ["test", "-c", "-tags", "verif", "-o", os.path.join(BUILD, "conc.test"), "."], go="go1.26")


def run_pure(cmd, out_path, seed, tier, n=None, replay=None, timeout=1800, extra=()):
    args = [os.path.join(BUILD, "pure"), cmd, "-seed", str(seed), "-tier", tier, "-out", out_path]
    if n is not None:
        args += ["-n", str(n)]
    if replay:
        args += ["-replay", replay]
    args += list(extra)
    rc, out = sh(args, timeout=timeout, env=GOENV)
    return rc, out


# ---------------------------------------------------------------------------
# Findings, violations, evidence

def run_probes(res, pid, names):
    """Scripted probes of harness/conc (TestProbes): clauses outside the transition models, judged by their own
    assertions.  Each failing probe is a violation with the probe as the failing input."""
    out = os.path.join(OUT, "%s-probes.txt" % pid.lower())
    if os.path.exists(out):
        os.remove(out)
    env = dict(GOENV, VERIF_PROBES=",".join(names), VERIF_OUT=out)
    rc, txt = sh([os.path.join(BUILD, "conc.test"), "-test.run", "^TestProbes$", "-test.timeout", "10m"], env=env, timeout=700)
    seen = {}
    if os.path.exists(out):
        with open(out) as f:
            for line in f:
                p = line.rstrip("\n").split("\t")
                if len(p) >= 3 and p[0] == "probe":
                    seen[p[1]] = p[2:]
    for n in names:
        r = seen.get(n)
        if r is None:
            res.violation("probe:%s" % n, "probe %s did not report (exit %d)" % (n, rc),
                          dict(kind="failing-input", probe=n, output=txt[-3000:],
                               replay_cmd="VERIF_PROBES=%s VERIF_OUT=/dev/stdout build/conc.test -test.run '^TestProbes$'" % n),
                          found_input=True)
        elif r[0] != "ok":
            res.violation("probe:%s" % n, "probe %s: %s" % (n, " ".join(r[1:])),
                          dict(kind="failing-input", probe=n, result=r,
                               replay_cmd="VERIF_PROBES=%s VERIF_OUT=/dev/stdout build/conc.test -test.run '^TestProbes$'" % n),
                          found_input=True)
    res.extra["probes"] = {n: (seen.get(n) or ["missing"])[0] for n in names}


def known_findings():
    """Parse known_findings.txt: returns list of dict(property, key, text) for `finding:` lines."""
    out = []
    p = os.path.join(ROOT, "known_findings.txt")
    if not os.path.exists(p):
        return out
    with open(p) as f:
        for line in f:
            line = line.strip()
            m = re.match(r"finding:\s+property=(\S+)\s+key=(\S+)\s+(.*)$", line)
            if m:
                out.append(dict(property=m.group(1), key=m.group(2), text=m.group(3)))
    return out


class Result:
    """What a correspondence step reports back to the driver."""

    def __init__(self):
        self.evaluations = 0
        self.distinct_nontrivial = 0
        self.rule = ""
        self.samples = []
        self.extra = {}
        self.assumptions = []
        self.violations = []      # dicts: key, what, replay (object), found_input (bool)
        self.notes = []

    def violation(self, key, what, replay, found_input=True):
        self.violations.append(dict(key=key, what=what, replay=replay, found_input=found_input))


def read_cases(path, limit=None):
    lines = []
    with open(path, encoding="utf-8", errors="replace") as f:
        for i, l in enumerate(f):
            lines.append(l.rstrip("\n"))
            if limit and i + 1 >= limit:
                break
    return lines


def sha(s):
    return hashlib.sha256(s.encode("utf-8", "replace")).hexdigest()[:16]
