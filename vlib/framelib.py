"""Shared by the framing checks (C11, C12): running the extracted framing models over a case
file in parallel shards (lines that share framing and payload go to the same shard, where the
runner evaluates the model once for all of them)."""
import hashlib
import os
import resource
import subprocess
from . import common as C


def _raise_stack():
    # the extracted list functions are not tail recursive; multi-megabyte records need a deep stack
    try:
        soft, hard = resource.getrlimit(resource.RLIMIT_STACK)
        resource.setrlimit(resource.RLIMIT_STACK, (hard, hard))
    except (ValueError, OSError):
        pass


def _key(fields):
    k = fields[0]
    if k in ("R", "V", "VW", "RK", "VK"):
        return fields[1] + "\t" + fields[3]
    if k in ("RX", "VX"):
        return fields[1] + "\t" + fields[2]
    return fields[1] if len(fields) > 1 else ""


def run_model_sharded(name, cases_path, shards=12, timeout=3000):
    """Returns (ok, mismatches, total, raw) like common.run_model, line numbers refer to the case file."""
    with open(cases_path, "rb") as f:
        lines = f.read().split(b"\n")
    if lines and lines[-1] == b"":
        lines.pop()
    # cost-aware assignment: heavier payload specs first, to the least loaded shard; equal keys together
    groups = {}
    for i, l in enumerate(lines):
        fields = l.decode("utf-8", "replace").split("\t")
        groups.setdefault(_key(fields), []).append(i)

    def cost(key):
        n = 0
        for part in key.replace(",", "+").split("+"):
            if part[:1] == "z":
                try:
                    n += int(part[1:].split("x")[0])
                except ValueError:
                    pass
            elif part[:1] == "y":
                try:
                    a, b = part[1:].split("x")
                    n += int(a) * max(1, len(b) // 2)
                except ValueError:
                    pass
            else:
                n += len(part) // 2
        return n + 50

    order = sorted(groups, key=lambda k: -cost(k))
    load = [0] * shards
    buckets = [[] for _ in range(shards)]
    for k in order:
        j = load.index(min(load))
        load[j] += cost(k)
        buckets[j].extend(groups[k])
    procs = []
    for b in buckets:
        b.sort()
        data = b"\n".join(lines[i] for i in b) + (b"\n" if b else b"")
        # the byte lists of multi-megabyte streams make the default GC pacing spend minutes re-marking them
        env = dict(os.environ, OCAMLRUNPARAM="s=16M,o=800")
        p = subprocess.Popen([C.runner(name)], stdin=subprocess.PIPE, stdout=subprocess.PIPE, stderr=subprocess.STDOUT,
                             preexec_fn=_raise_stack, env=env)
        procs.append((p, b, data))
    import threading
    outs = [None] * len(procs)

    def feed(j):
        p, _, data = procs[j]
        try:
            o, _ = p.communicate(data, timeout=timeout)
            outs[j] = (p.returncode, o.decode("utf-8", "replace"))
        except subprocess.TimeoutExpired:
            p.kill()
            outs[j] = (124, "[timeout]")

    ths = [threading.Thread(target=feed, args=(j,)) for j in range(len(procs))]
    for t in ths:
        t.start()
    for t in ths:
        t.join()
    mism, total, ok, other = [], 0, True, []
    for j, (rc, out) in enumerate(outs):
        b = procs[j][1]
        done = False
        for line in out.split("\n"):
            if line.startswith("MISMATCH\t"):
                parts = line.split("\t")
                mism.append(dict(line=b[int(parts[1]) - 1] + 1, expected=parts[2] if len(parts) > 2 else "",
                                 got=parts[3] if len(parts) > 3 else ""))
            elif line.startswith("DONE\t"):
                done = True
                for kv in line.split("\t")[1:]:
                    k, v = kv.split("=")
                    if k == "total":
                        total += int(v)
            elif line.startswith("BADLINE\t"):
                parts = line.split("\t")
                other.append("BADLINE\t%d" % (b[int(parts[1]) - 1] + 1))
            elif line.strip():
                other.append(line)
        if rc != 0 or not done:
            ok = False
            other.append("[shard %d: exit %s]" % (j, rc))
    mism.sort(key=lambda m: m["line"])
    return ok, mism, total, "\n".join(other)
