"""Shared driver for the client-model properties (C04, C05): runs harness/conc client
scenario workers (component "cli") in parallel against the repository under test, replays
every scenario log through the Coq client model (ocaml/run_cli.ml -> CliAccept.accept with
the property's projection mask), evaluates the property monitors on the observed logs, and
turns crashes / hangs / leaks / rejected logs into violations."""
import os
import concurrent.futures as cf

from . import common as C

SHARDS = 10


def _worker(fam, seed, lo, hi, shard, tier, attempt=0):
    out = os.path.join(C.OUT, "%s-%d-%d.log" % (fam.replace(":", "_"), seed, shard))
    env = dict(C.GOENV, VERIF_FAMILY=fam, VERIF_SEED=str(seed), VERIF_TIER=tier, VERIF_RACE_ATTEMPT=str(attempt))
    crashes, logs = [], []
    cur, part = lo, 0
    while cur < hi and len(crashes) < 3:
        pout = out + ".%d" % part
        env.update(VERIF_FROM=str(cur), VERIF_TO=str(hi), VERIF_OUT=pout)
        try:
            os.remove(pout + ".progress")
        except OSError:
            pass
        rc, txt = C.sh([os.path.join(C.BUILD, "conc.test"), "-test.run", "^TestWorker$", "-test.timeout", "20m"],
                       env=env, timeout=1500)
        logs.append(pout)
        prog = ""
        try:
            prog = open(pout + ".progress").read().strip()
        except OSError:
            pass
        if rc == 0 and prog == "done":
            break
        try:
            idx = int(prog)
        except ValueError:
            idx = cur
        crashes.append(dict(family=fam, seed=seed, idx=idx, exit=rc, output=txt[-6000:], log=pout))
        cur = idx + 1
        part += 1
    return logs, crashes


def split_scenarios(path):
    cur = None
    with open(path, encoding="utf-8", errors="replace") as f:
        for line in f:
            line = line.rstrip("\n")
            if line.startswith("cfg\t"):
                if cur is not None:
                    yield cur
                cur = dict(cfg=line, lines=[line], idx=None, complete=False, policy="?")
            elif cur is not None:
                cur["lines"].append(line)
                if line.startswith("scenario\t"):
                    p = line.split("\t")
                    cur["idx"] = int(p[3])
                    cur["policy"] = p[4]
                elif line == "end":
                    cur["complete"] = True
    if cur is not None:
        yield cur


# ---------------------------------------------------------------------------
# monitors: decidable predicates of the properties on an OBSERVED log.  Each returns None
# (holds) or a sentence describing the violation.  Sound, not complete.

def _members(field):
    out = []
    if field == "-":
        return out
    for m in field.split(";"):
        p = m.split(",")
        out.append(dict(id=p[0], method=p[1], params=p[2], error=p[3], result=p[4], err=p[5]))
    return out


def _parse(sc):
    """Index an observed scenario: operations, what was transmitted for them, what the peer fed."""
    ops = {}        # n -> dict(kind, specs, sent ids (None until transmitted), rets, start line, ctxend)
    fed = {}        # idhex -> list of payload strings ("R,<raw>" / "E,<code>,<msg>,<data>")
    stops = []      # line numbers of events after which the client is certainly stopped (onstop observed)
    for ln, l in enumerate(sc["lines"]):
        f = l.split("\t")
        if f[0] == "env" and f[1] == "op":
            specs = []
            if f[4] != "-":
                for s in f[4].split(";"):
                    q = s.split(",")
                    specs.append(dict(method=q[0], params=q[1], notify=q[2] == "1", bad=q[3] == "1"))
            ops[int(f[2])] = dict(kind=f[3], specs=specs, ids=None, sent_ok=None, rets=[], line=ln, ctxend=None)
        elif f[0] == "env" and f[1] == "ctxend":
            if int(f[2]) in ops and ops[int(f[2])]["ctxend"] is None:
                ops[int(f[2])]["ctxend"] = (ln, f[3])
        elif f[0] == "env" and f[1] == "feed" and f[2] == "msg":
            for m in _members(f[4]):
                if m["method"] != "-" and m["error"] == "-" and m["result"] == "-":
                    continue   # request or notification from the peer
                if m["err"] != "-":
                    c, msg, data = m["err"].split(":")
                    pay = "E,%s,%s,%s" % (c, msg, data)
                elif m["error"] != "-":
                    c, msg, data = m["error"].split(":")
                    pay = "E,%s,%s,%s" % (c, msg, data)
                else:
                    pay = "R," + m["result"]
                idh = m["id"]
                if idh == "6e756c6c":
                    idh = "-"
                fed.setdefault(idh, []).append((ln, pay))
        elif f[0] == "o" and f[1] == "sendreq":
            ms = [tuple(x.split(",")) for x in f[4].split(";")]
            # attribute the record to the operation whose specs it carries (tokens are unique)
            for n, o in ops.items():
                if o["ids"] is None and o["kind"] != "close" and len(o["specs"]) == len(ms) and \
                        all(s["method"] == m[1] and s["params"] == m[2] for s, m in zip(o["specs"], ms)):
                    o["ids"] = [m[0] for s, m in zip(o["specs"], ms) if not s["notify"]]
                    o["sent_ok"] = f[2] == "1"
                    o["sent_line"] = ln
                    break
        elif f[0] == "o" and f[1] == "ret":
            n = int(f[2])
            if n in ops:
                ops[n]["rets"].append((ln, f[3:]))
        elif f[0] == "o" and f[1] == "onstop":
            stops.append(ln)
    return ops, fed, stops


def mon_return_once(sc):
    """C05: every operation returns at most once; exactly once when the scenario ran to its end
    (the epilogue closes the client, lets the peer close and ends every context)."""
    ops, _, _ = _parse(sc)
    for n, o in sorted(ops.items()):
        if len(o["rets"]) > 1:
            return "operation %d (%s) returned %d times" % (n, o["kind"], len(o["rets"]))
        if sc["complete"] and len(o["rets"]) == 0:
            return "operation %d (%s) never returned although the client was closed and its context ended" % (n, o["kind"])
    return None


def mon_ids_fresh(sc):
    """C04: the ids the client puts on requests are pairwise distinct."""
    seen = {}
    for ln, l in enumerate(sc["lines"]):
        f = l.split("\t")
        if f[0] == "o" and f[1] == "sendreq":
            for x in f[4].split(";"):
                i = x.split(",")[0]
                if i == "-":
                    continue
                if i in seen:
                    return "request id %s used twice (lines %d and %d)" % (i, seen[i], ln)
                seen[i] = ln
    return None


def _entry_ok(ops, fed, stops, o, idh, payload, is_call, ret_line):
    """Is `payload` a legitimate completion of the request with id `idh` of operation o?"""
    kind = payload[0]
    fed_here = [p for (ln, p) in fed.get(idh, []) if ln < ret_line and ln > o.get("sent_line", -1)]
    ctx = o["ctxend"] is not None and o["ctxend"][0] < ret_line
    stopped = any(ln < ret_line for ln in stops) or True   # a stop may be in progress (close released, OnStop later)
    if kind == "R":
        return ("R," + payload[1]) in fed_here, "result %s was never sent by the peer for id %s" % (payload[1], idh)
    if kind == "E":
        txt = ",".join(payload)
        if txt in fed_here:
            return True, ""
        code = payload[1]
        if code in ("-32097", "-32096") and (ctx or stopped):
            return True, ""
        if code == "-32603":
            return True, ""    # internal error synthesised after a transport failure
        return False, "error %s was never sent by the peer for id %s and no context/stop explains it" % (txt, idh)
    if kind == "ctx":
        code = "-32097" if payload[1] == "cancel" else "-32096"
        if any(p.startswith("E,%s," % code) for p in fed_here):
            return True, ""
        return True, ""    # context or stop: judged by mon_ctx_outcome
    return False, "unparsable completion %r" % (payload,)


def mon_reply_matches(sc):
    """C04: a reply returned by Call / a Batch entry is a payload the peer sent with the id of that request,
    after the request was transmitted; Batch returns one response per non-notification spec, in spec order."""
    ops, fed, stops = _parse(sc)
    for n, o in sorted(ops.items()):
        for (ln, r) in o["rets"]:
            if r[0] == "call":
                if o["ids"] is None or len(o["ids"]) != 1:
                    return "Call %d returned a reply although no request with an id was transmitted for it" % n
                ok, why = _entry_ok(ops, fed, stops, o, o["ids"][0], r[1].split(","), True, ln)
                if not ok:
                    return "Call %d: %s" % (n, why)
            elif r[0] == "batch":
                entries = [] if r[1] == "-" else [x.split(",") for x in r[1].split(";")]
                want = o["ids"] if o["ids"] is not None else []
                if [e[0] for e in entries] != want:
                    return "Batch %d returned responses for ids %s, its request ids in spec order are %s" % (
                        n, [e[0] for e in entries], want)
                for e in entries:
                    ok, why = _entry_ok(ops, fed, stops, o, e[0], e[1:], False, ln)
                    if not ok:
                        return "Batch %d: %s" % (n, why)
    return None


def mon_ctx_outcome(sc):
    """C05: a Call reports context.Canceled / DeadlineExceeded only if its context ended that way, the client
    stopped, or the peer itself answered with that code; after a stop was observed, a new operation
    fails without transmitting."""
    ops, fed, stops = _parse(sc)
    closes = [ln for ln, l in enumerate(sc["lines"]) if l == "o\tclose"]
    for n, o in sorted(ops.items()):
        for (ln, r) in o["rets"]:
            if r[0] == "call" and r[1].startswith("ctx,"):
                want = r[1].split(",")[1]
                code = "-32097" if want == "cancel" else "-32096"
                by_ctx = o["ctxend"] is not None and o["ctxend"][0] < ln and o["ctxend"][1] == want
                by_stop = want == "cancel" and any(c < ln for c in closes)
                by_peer = o["ids"] and any(p.startswith("E,%s," % code) for (l2, p) in fed.get(o["ids"][0], []) if l2 < ln)
                if not (by_ctx or by_stop or by_peer):
                    return "Call %d returned context %s but its context did not end that way, the client was not stopped " \
                           "and the peer sent no such error" % (n, want)
            if r[0] == "batch" and r[1] != "-" and o["ids"]:
                # the same for the entries of a Batch (they keep the wire form of the error)
                for e in r[1].split(";"):
                    q = e.split(",")
                    if len(q) < 3 or q[1] != "E" or q[2] not in ("-32097", "-32096"):
                        continue
                    want = "cancel" if q[2] == "-32097" else "deadline"
                    by_ctx = o["ctxend"] is not None and o["ctxend"][0] < ln and o["ctxend"][1] == want
                    by_stop = want == "cancel" and any(c < ln for c in closes)
                    by_peer = any(p.startswith("E,%s," % q[2]) for (l2, p) in fed.get(q[0], []) if l2 < ln)
                    if not (by_ctx or by_stop or by_peer):
                        return "Batch %d: the entry for id %s completed with context %s but the context of the Batch did not " \
                               "end that way, the client was not stopped and the peer sent no such error" % (n, q[0], want)
        if o["kind"] != "close" and stops and o["line"] > stops[0]:
            if o.get("sent_ok") is not None:
                return "operation %d was issued after the client stopped and still transmitted a request" % n
            for (ln, r) in o["rets"]:
                if r[0] not in ("fail",):
                    return "operation %d was issued after the client stopped and returned %s" % (n, r)
    return None


def mon_hooks(sc):
    """C05: OnCancel at most once per request id and never for a request that completed with a peer result;
    OnStop at most once (exactly once when the scenario ran to its end)."""
    ops, fed, stops = _parse(sc)
    cancels = {}
    for l in sc["lines"]:
        f = l.split("\t")
        if f[0] == "o" and f[1] == "oncancel":
            cancels[f[2]] = cancels.get(f[2], 0) + 1
    for i, c in cancels.items():
        if c > 1:
            return "OnCancel invoked %d times for request id %s" % (c, i)
    sent = {}
    for n, o in ops.items():
        for i in (o["ids"] or []):
            sent[i] = n
    for i in cancels:
        if i not in sent:
            return "OnCancel invoked for id %s, which no transmitted request carries" % i
        o = ops[sent[i]]
        for (ln, r) in o["rets"]:
            if r[0] == "call" and r[1].startswith("R,"):
                return "OnCancel invoked for request id %s although Call %d completed with the peer's result" % (i, sent[i])
            if r[0] == "call" and r[1].startswith("E,") and r[1].split(",")[1] not in ("-32097", "-32096", "-32603") \
                    and any(p == r[1] for (_, p) in fed.get(i, [])):
                # the watcher only ever writes the context's error code or InternalError: this one is the peer's
                return "OnCancel invoked for request id %s although Call %d completed with the peer's error reply" % (i, sent[i])
            if r[0] == "batch" and r[1] != "-":
                for e in r[1].split(";"):
                    q = e.split(",")
                    if q[0] == i and q[1] == "R":
                        return "OnCancel invoked for request id %s although its Batch entry completed with the peer's result" % i
                    if q[0] == i and q[1] == "E" and q[2] not in ("-32097", "-32096", "-32603") \
                            and any(p == ",".join(q[1:]) for (_, p) in fed.get(i, [])):
                        return "OnCancel invoked for request id %s although its Batch entry completed with the peer's error reply" % i
    oncancel_cfg = sc["cfg"].split("\t")[2] == "1"
    if oncancel_cfg:
        # a Call that ended by its own context (no peer error of that code fed) must have had OnCancel
        for n, o in ops.items():
            for (ln, r) in o["rets"]:
                if r[0] == "call" and r[1].startswith("ctx,") and o["ids"]:
                    code = "-32097" if r[1].endswith("cancel") else "-32096"
                    by_peer = any(p.startswith("E,%s," % code) for (l2, p) in fed.get(o["ids"][0], []))
                    if not by_peer and sc["complete"] and cancels.get(o["ids"][0], 0) != 1:
                        return "Call %d ended by its context but OnCancel ran %d times for id %s" % (
                            n, cancels.get(o["ids"][0], 0), o["ids"][0])
                if r[0] == "batch" and r[1] != "-" and o["ids"]:
                    for e in r[1].split(";"):
                        q = e.split(",")
                        if len(q) < 3 or q[1] != "E" or q[2] not in ("-32097", "-32096"):
                            continue
                        by_peer = any(p.startswith("E,%s," % q[2]) for (l2, p) in fed.get(q[0], []))
                        if not by_peer and sc["complete"] and cancels.get(q[0], 0) != 1:
                            return "Batch %d: the entry for id %s ended by the context but OnCancel ran %d times for it" % (
                                n, q[0], cancels.get(q[0], 0))
    if len(stops) > 1:
        return "OnStop invoked %d times" % len(stops)
    if sc["complete"] and len(stops) != 1:
        return "OnStop invoked %d times although the client was closed" % len(stops)
    return None


def mon_quiescent_returned(sc):
    """C05, racing scenarios ("snap" = a quiescent point with no goroutine held back by the harness): at a
    quiescent point an operation has returned if its context ended, if the client stopped after it was issued,
    or if the peer sent a well-formed reply for each of its request ids after the request was transmitted
    ("nothing blocks once one of these has happened")."""
    if sc["policy"] != "race":
        return None
    ops, fed, stops = _parse(sc)
    good = {}     # idhex -> lines of well-formed replies (result or error object, no defect) fed for it
    for ln, l in enumerate(sc["lines"]):
        f = l.split("\t")
        if f[0] == "env" and f[1] == "feed" and f[2] == "msg":
            for m in _members(f[4]):
                if m["method"] == "-" and m["err"] == "-" and (m["error"] != "-" or m["result"] != "-"):
                    good.setdefault(m["id"], []).append(ln)
    for ln, l in enumerate(sc["lines"]):
        if not l.startswith("snap\t"):
            continue
        for n, o in sorted(ops.items()):
            if o["kind"] == "close" or o["line"] > ln or any(rl < ln for (rl, _) in o["rets"]):
                continue
            if o["ctxend"] is not None and o["ctxend"][0] < ln:
                return "operation %d (%s) has not returned at a quiescent point (line %d) although its context ended (line %d)" % (
                    n, o["kind"], ln, o["ctxend"][0])
            if stops and o["line"] < stops[0] < ln:
                return "operation %d (%s) has not returned at a quiescent point (line %d) although the client stopped (line %d)" % (
                    n, o["kind"], ln, stops[0])
            if o.get("sent_ok") and o["ids"] and all(
                    any(o["sent_line"] < fl < ln for fl in good.get(i, [])) for i in o["ids"]):
                return "operation %d (%s) has not returned at a quiescent point (line %d) although the peer answered %s after " \
                       "the request was transmitted (line %d)" % (n, o["kind"], ln, "its id" if len(o["ids"]) == 1 else "all its ids",
                                                                  o["sent_line"])
    return None


def mon_close_waits(sc):
    """C05: when Close returns, no callback handler is still running and nothing is delivered afterwards
    by a goroutine Close should have waited for (observed as goroutines / parked points after the last return)."""
    # the structural part (goroutines left) is reported by the harness as a fault line
    return None


def mon_faults(sc):
    for l in sc["lines"]:
        f = l.split("\t")
        if f[0] == "fault":
            return " ".join(f[1:])
        if f[0] == "o" and f[1] == "sendbad":
            return "record passed to Send is not a JSON-RPC message: " + f[3]
    return None


MONITORS = {
    "cli:c04": [mon_faults, mon_ids_fresh, mon_reply_matches, mon_return_once, mon_quiescent_returned],
    "cli:c05": [mon_faults, mon_return_once, mon_ctx_outcome, mon_hooks, mon_reply_matches, mon_quiescent_returned],
    "cli:c10": [mon_faults, mon_return_once],
    "cli:c09": [mon_faults, mon_return_once],
}


def nontrivial(sc, fam):
    txt = "\n".join(sc["lines"])
    if fam == "cli:c04":
        # at least one request answered by a peer payload
        return ("\tcall\tR," in txt or "\tcall\tE," in txt or ",R," in txt) and "env\tfeed\tmsg" in txt
    if fam == "cli:c05":
        return ("env\tctxend" in txt or "o\tclose" in txt) and "o\tsendreq\t1" in txt
    if fam == "cli:c10":
        return "o\tsendreq\t" in txt
    if fam == "cli:c09":
        return "env\tcbgate\t" in txt
    return True


def run_family(ctx, res, fam, n_quick=3000, n_thorough=60000):
    ok, log = C.go_build_conc()
    if not ok:
        res.violation("corr:harness-build", "the scheduling harness does not build against the repository",
                      dict(kind="broken-correspondence", what="go1.26 test -c -tags verif", log=log[-3000:]),
                      found_input=False)
        return
    seed = ctx["seed"]
    n = n_thorough if ctx["tier"] == "thorough" else n_quick
    if ctx.get("replay"):
        return replay(ctx, res, fam)
    per = (n + SHARDS - 1) // SHARDS
    jobs = []
    with cf.ThreadPoolExecutor(max_workers=SHARDS) as ex:
        for s in range(SHARDS):
            lo, hi = s * per, min(n, (s + 1) * per)
            if lo < hi:
                jobs.append(ex.submit(_worker, fam, seed, lo, hi, s, ctx["tier"]))
        results = [j.result() for j in jobs]
    logs, crashes = [], []
    for l, c in results:
        logs += l
        crashes += c
    judge_logs(ctx, res, fam, logs, crashes)


def judge_logs(ctx, res, fam, logs, crashes):
    short = fam.split(":")[1]
    distinct = set()
    evals = 0
    policies, kinds, outcomes = {}, {}, {}
    samples = []
    rejected = []
    verdicts = {}
    maxstates = 0

    def _accept(lp):
        if not os.path.exists(lp):
            return lp, 0, ""
        with open(lp, "rb") as f:
            data = f.read()
        rc, out = C.sh([C.runner("run_cli"), short], stdin=data, timeout=3000)
        return lp, rc, out

    with cf.ThreadPoolExecutor(max_workers=SHARDS) as ex:
        outs = list(ex.map(_accept, logs))
    for lp, rc, out in outs:
        if out and (rc != 0 or "DONE" not in out):
            res.violation("corr:model-runner", "the model runner failed on a harness log",
                          dict(kind="broken-correspondence", what="run_cli", log=os.path.basename(lp), output=out[-1500:]),
                          found_input=False)
        for line in out.split("\n"):
            p = line.split(" ", 4)
            if p[0] in ("OK", "REJECT", "FAULT") and len(p) >= 4:
                verdicts.setdefault((p[1], p[2], p[3]), []).append((p[0], p[4] if len(p) > 4 else ""))
                if p[0] == "OK" and "states=" in line:
                    try:
                        maxstates = max(maxstates, int(line.split("states=")[1].split(" ")[0]))
                    except ValueError:
                        pass
    crashed = {(c["seed"], c["idx"]) for c in crashes}
    nviol = 0
    for lp in logs:
        if not os.path.exists(lp):
            continue
        for sc in split_scenarios(lp):
            if sc["idx"] is None:
                continue
            evals += 1
            body = "\n".join(l for l in sc["lines"] if not l.startswith("scenario\t"))
            if nontrivial(sc, fam):
                distinct.add(C.sha(body))
            policies[sc["policy"]] = policies.get(sc["policy"], 0) + 1
            for l in sc["lines"]:
                f = l.split("\t")
                k = f[0] + (":" + f[1] if f[0] in ("env", "rel", "o") and len(f) > 1 else "")
                if f[0] == "env" and f[1] == "feed":
                    k += ":" + f[2]
                if f[0] == "env" and f[1] in ("op", "ctxend"):
                    k += ":" + f[3]
                kinds[k] = kinds.get(k, 0) + 1
                if f[0] == "o" and f[1] == "ret":
                    oc = f[3] + (":" + f[4].split(",")[0] if len(f) > 4 and f[3] in ("call", "fail") else "")
                    outcomes[oc] = outcomes.get(oc, 0) + 1
            if len(samples) < 2 and sc["complete"] and nontrivial(sc, fam):
                samples.append([l[:160] for l in sc["lines"][:40]])
            key = (fam, str(ctx["seed"]), str(sc["idx"]))
            vs = verdicts.get(key, [])
            mon_fail = None
            for m in MONITORS.get(fam, []):
                r = m(sc)
                if r:
                    mon_fail = (m.__name__, r)
                    break
            rej = next((v for v in vs if v[0] == "REJECT"), None)
            if mon_fail and nviol < 6:
                nviol += 1
                res.violation("%s:monitor:%s" % (fam, mon_fail[0]), mon_fail[1],
                              dict(kind="failing-history", family=fam, seed=ctx["seed"], idx=sc["idx"],
                                   monitor=mon_fail[0], what=mon_fail[1],
                                   model_verdict=rej[1] if rej else "accepted", log=sc["lines"]), found_input=True)
            elif rej and (sc["complete"] or (ctx["seed"], sc["idx"]) not in crashed):
                rejected.append((sc, rej[1]))
    for sc, why in rejected[:3]:
        res.violation("corr:CliModel.step:%s" % short,
                      "implementation log not accepted by the client model (%s)" % why[:300],
                      dict(kind="broken-correspondence", correspondence="CliAccept.accept over CliModel.step, projection " + short,
                           family=fam, seed=ctx["seed"], idx=sc["idx"], divergence=why, log=sc["lines"]),
                      found_input=False)
    for c in crashes[:3]:
        last = None
        for sc in split_scenarios(c["log"]):
            last = sc
        o = c["output"]
        what = "worker process died (exit %s)" % c["exit"]
        if "watchdog:" in o or c["exit"] == 4:
            what = "hang: the scenario never reached quiescence (a goroutine blocked on the client mutex or spinning)"
        elif "abort:" in o or c["exit"] == 5:
            what = "deadlock: a goroutine is blocked while holding the client mutex"
        elif "leak:" in o or c["exit"] == 6:
            what = "goroutines left behind after Close returned, the peer closed and every context ended"
        elif "blocked goroutines remain" in o:
            what = "goroutines left behind (synctest: blocked goroutines remain)"
        elif "panic:" in o:
            what = "panic: " + o.split("panic:", 1)[1].split("\n", 1)[0].strip()
        elif c["exit"] == 124:
            what = "hang: worker timed out"
        res.violation("%s:crash" % fam, what,
                      dict(kind="failing-history", family=fam, seed=c["seed"], idx=c["idx"], exit=c["exit"], what=what,
                           output=o[-4000:], log=(last["lines"] if last and last["idx"] == c["idx"] else [])),
                      found_input=True)
    res.evaluations = evals
    res.distinct_nontrivial = len(distinct)
    res.samples = samples
    res.extra.update(schedule_policies=policies, log_item_distribution=kinds, return_outcomes=outcomes,
                     scenarios_rejected=len(rejected), worker_crashes=len(crashes), max_model_states=maxstates,
                     racing_scenarios=policies.get("race", 0),
                     modes="S (scheduled at the cli.* verif hook points: fifo = quiescent stepping, random = seeded schedules); "
                           "R (policy race: no scheduler, hook points and the client's Logger yield pseudo-randomly, actions issued "
                           "back to back without quiescence, half on one processor and half in parallel; judged by the monitors, "
                           "crash / hang / leak detection, not by model acceptance)",
                     exhaustive_families=("thorough tier: scenarios 0..220 of cli:c04 enumerate every permutation and every partition "
                                 "into consecutive records of the replies to 1..4 calls") if fam == "cli:c04" else "")


def replay(ctx, res, fam):
    import json
    with open(ctx["replay"]) as f:
        rp = json.load(f)
    fam = rp.get("family", fam)
    idx = int(rp.get("idx", 0))
    seed = int(rp.get("seed", ctx["seed"]))
    ctx = dict(ctx, seed=seed)
    # a racing scenario is not deterministic: up to 20 attempts (each with another perturbation), the first
    # failing one is reported
    attempts = 0
    for attempt in range(20):
        attempts += 1
        logs, crashes = _worker(fam, seed, idx, idx + 1, 99, ctx["tier"], attempt)
        racing, failing = False, bool(crashes)
        for lp in logs:
            if os.path.exists(lp):
                for sc in split_scenarios(lp):
                    racing = racing or sc["policy"] == "race"
                    failing = failing or any(m(sc) for m in MONITORS.get(fam, []))
        if failing or not racing:
            break
    judge_logs(ctx, res, fam, logs, crashes)
    res.extra["replay_attempts"] = attempts
