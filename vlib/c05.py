"""C05 - client property; model coq/cli/CliModel.v, acceptor coq/cli/CliAccept.v (projection "c05"),
harness harness/conc/cli.go + cligen.go (family "cli:c05"), driver vlib/clilib.py."""
from . import clilib, c04

TRUSTED = c04.TRUSTED + ["goroutines left in the bubble are counted with runtime.NumGoroutine at quiescent points"]
ASSUMPTIONS = ["the peer keeps receiving (Send never blocks for ever)",
               "the peer closes its end after the client closed (the epilogue feeds EOF); needed only for channels whose "
               "Close does not unblock Recv",
               "callback handlers return when their context is cancelled"]


def run(ctx, res):
    clilib.run_family(ctx, res, "cli:c05")
    res.rule = ("scenario = seeded walk over {start Call/Batch/Notify (own goroutine and context, some with a virtual-time "
                "deadline), peer reply / junk / server request records, cancel a context, let a deadline pass, Close, peer EOF, "
                "Recv error, non-JSON record, Send failure on/off or around a single Send, callback handler returns} interleaved "
                "with releases of goroutines parked at the cli.* scheduling points (fifo = quiescent stepping, random = seeded "
                "schedule), ended by Close + EOF + ending every context; every log is replayed through the Coq client model "
                "(projection c05: everything incl. hook invocations, channel Close, goroutines alive and pending count at "
                "quiescent points) and judged by the monitors (exactly one return per operation, context outcome, "
                "no transmission after stop, OnCancel/OnStop counts, goroutines left, hangs); every 6th scenario runs in racing "
                "mode (policy race: no scheduler, the hook points and a Logger given to the client yield pseudo-randomly, the "
                "end of an operation's context and the peer's reply to that very request are issued back to back in either "
                "order, an instant peer answers from inside Send, Close / Recv errors / Send faults race with replies; half "
                "on one processor, half in parallel) and is judged by the monitors, by what holds at its quiescent points "
                "and by crash / hang / leak detection only, not by model acceptance; non-trivial = distinct log with a "
                "transmitted request and a cancel/deadline/Close/failure")
