"""Shared driver for the server-model properties (C01, C03, C06, C07, C08, C09, C10):
runs harness/conc scenario workers in parallel against /repo, replays every
scenario log through the Coq server model (ocaml/run_srv.ml -> Accept.accept with
the property's projection mask), evaluates the property monitors on the observed
logs, and turns crashes / leaks / rejected logs into violations."""
import os
import subprocess
import concurrent.futures as cf

from . import common as C

SHARDS = 12


def _worker(fam, seed, lo, hi, shard):
    out = os.path.join(C.OUT, "%s-%d-%d.log" % (fam, seed, shard))
    env = dict(C.GOENV, VERIF_FAMILY=fam, VERIF_SEED=str(seed), VERIF_OUT=out)
    crashes = []
    logs = []
    cur = lo
    part = 0
    while cur < hi and len(crashes) < 3:
        pout = out + ".%d" % part
        env.update(VERIF_FROM=str(cur), VERIF_TO=str(hi), VERIF_OUT=pout)
        rc, txt = C.sh([os.path.join(C.BUILD, "conc.test"), "-test.run", "^TestWorker$", "-test.timeout", "50m"],
                       env=env, timeout=3300)
        logs.append(pout)
        prog = ""
        try:
            prog = open(pout + ".progress").read().strip()
        except OSError:
            pass
        if rc == 0 and prog == "done":
            break
        # the worker died: which scenario was in flight?
        try:
            idx = int(prog)
        except ValueError:
            idx = cur
        crashes.append(dict(family=fam, seed=seed, idx=idx, exit=rc, output=txt[-6000:], log=pout))
        cur = idx + 1
        part += 1
    return logs, crashes


def split_scenarios(path):
    """Yield (header dict, lines) per scenario of a worker log (the last may be partial)."""
    cur = None
    with open(path, encoding="utf-8", errors="replace") as f:
        for line in f:
            line = line.rstrip("\n")
            if line.startswith("cfg\t"):
                if cur is not None:
                    yield cur
                cur = dict(cfg=line, lines=[line], idx=None, complete=False)
            elif cur is not None:
                cur["lines"].append(line)
                if line.startswith("scenario\t"):
                    p = line.split("\t")
                    cur["idx"] = int(p[3])
                    cur["policy"] = p[4]
                elif line == "end":
                    cur["complete"] = True
    if cur is not None:
        yield cur


# ---------------------------------------------------------------------------
# monitors: decidable predicates of the properties on an OBSERVED log.  Each
# returns None (holds) or a sentence describing the violation.  They are sound
# (never fail on behaviour the property allows), not complete.

def _tokens_of_feed(fields):
    """members of an `env feed msg` line -> list of dict(id, method, params, valid)"""
    out = []
    for m in fields[4].split(";"):
        p = m.split(",")
        out.append(dict(id=p[0], method=p[1], params=p[2], reply=(p[3] != "-" or p[4] != "-"), err=p[5]))
    return out


def mon_start_once(sc):
    """C01: a handler is invoked at most once per request, never for an invalid member."""
    seen = {}
    invalid = set()
    for l in sc["lines"]:
        f = l.split("\t")
        if f[0] == "env" and f[1] == "feed" and f[2] in ("msg", "msgeof"):
            for m in _tokens_of_feed(f):
                if m["err"] != "-" and m["params"] != "-":
                    invalid.add(m["params"])
        if f[0] == "o" and f[1] == "start":
            if f[2] in seen:
                return "handler for params %s invoked twice" % f[2]
            if f[2] in invalid:
                return "handler invoked for an invalid member (params %s)" % f[2]
            seen[f[2]] = True
    return None


def mon_response_once(sc):
    """C01: responses carry the id of a call that was received, at most as often as it was received,
    and a result body is the outcome the handler of a call with that id returned."""
    fed = {}
    outcomes = {}   # id -> list of result raw (from gates)
    tok_id = {}
    for l in sc["lines"]:
        f = l.split("\t")
        if f[0] == "env" and f[1] == "feed" and f[2] == "raw":
            # byte-level records: which ids they carry is the wire model's business (acceptance), not this monitor's
            return None
        if f[0] == "env" and f[1] == "start":
            fed, outcomes, tok_id = {}, {}, {}
        if f[0] == "env" and f[1] == "feed" and f[2] in ("msg", "msgeof"):
            for m in _tokens_of_feed(f):
                if m["id"] not in ("-", "6e756c6c"):
                    fed[m["id"]] = fed.get(m["id"], 0) + 1
                if m["params"] != "-":
                    tok_id[m["params"]] = m["id"]
        if f[0] == "env" and f[1] == "gate" and f[3] == "res":
            outcomes.setdefault(tok_id.get(f[2], "?"), []).append(f[4])
        if f[0] == "o" and f[1] == "send":
            for r in f[4].split(";"):
                p = r.split(",")
                if p[0] == "6e756c6c":
                    continue
                if fed.get(p[0], 0) <= 0:
                    return "response with id %s that answers no received request (or answers it twice)" % p[0]
                fed[p[0]] -= 1
                if p[1] == "R" and p[2] not in outcomes.get(p[0], []) and not _maybe_builtin(sc, p[0]):
                    return "result %s for id %s is not what its handler returned" % (p[2], p[0])
    return None


def _maybe_builtin(sc, idhex):
    # a call to rpc.serverInfo is answered by the built-in, whose result the harness does not script
    for l in sc["lines"]:
        f = l.split("\t")
        if f[0] == "env" and f[1] == "feed" and f[2] in ("msg", "msgeof"):
            for m in _tokens_of_feed(f):
                if m["id"] == idhex and m["method"] == "7270632e736572766572496e666f":
                    return True
    return False


def mon_barrier(sc):
    """C03: when a request's handler starts, every valid notification of an earlier inbound message
    has already returned."""
    msgno = 0
    tok_msg = {}
    notes = []      # (msgno, params) of valid notifications to the known method
    gated = set()
    for l in sc["lines"]:
        f = l.split("\t")
        if f[0] == "env" and f[1] in ("start", "callstop"):
            # a new epoch / a stop (queued calls are dropped, ordering of what remains is C08's subject)
            notes, tok_msg = [], {}
        if f[0] == "env" and f[1] == "feed" and f[2] == "err":
            notes, tok_msg = [], {}
        if f[0] == "env" and f[1] == "feed" and f[2] in ("msg", "msgeof"):
            msgno += 1
            for m in _tokens_of_feed(f):
                if m["params"] == "-":
                    continue
                tok_msg[m["params"]] = msgno
                if m["err"] == "-" and not m["reply"] and m["id"] in ("-", "6e756c6c") and m["method"] == "67":
                    notes.append((msgno, m["params"]))
        if f[0] == "env" and f[1] == "gate":
            gated.add(f[2])
        if f[0] == "o" and f[1] == "start" and f[2] in tok_msg:
            for (n, p) in notes:
                if n < tok_msg[f[2]] and p not in gated:
                    return "handler %s (message %d) started before notification %s of message %d returned" % (
                        f[2], tok_msg[f[2]], p, n)
    return None


def mon_concurrency(sc):
    """C06: never more than Concurrency handlers executing."""
    K = int(sc["cfg"].split("\t")[1])
    running = 0
    for l in sc["lines"]:
        f = l.split("\t")
        if f[0] == "o" and f[1] == "start":
            running += 1
            if running > K:
                return "%d handlers executing with Concurrency=%d" % (running, K)
        if f[0] == "o" and f[1] == "gate":
            running -= 1
    return None


def mon_cancel_target(sc):
    """C07: a handler sees its context cancelled only after a CancelRequest naming its id, a stop, or
    a channel failure."""
    tok_id = {}
    cancelled_ids = set()
    stopped = False
    for l in sc["lines"]:
        f = l.split("\t")
        if f[0] == "env" and f[1] == "start":
            stopped = False
            cancelled_ids = set()
        if f[0] == "env" and f[1] == "feed" and f[2] in ("msg", "msgeof"):
            for m in _tokens_of_feed(f):
                if m["params"] != "-":
                    tok_id[m["params"]] = m["id"]
        if f[0] == "env" and f[1] == "callcancel":
            cancelled_ids.add(f[3])
        if f[0] == "env" and (f[1] == "callstop" or (f[1] == "feed" and f[2] in ("err", "msgeof"))):
            stopped = True
        if f[0] == "env" and f[1] == "basectx":
            stopped = True      # the base context of every request context has ended (or: contexts have deadlines)
        if f[0] == "o" and f[1] in ("start", "gate") and f[3] == "1":
            if not stopped and tok_id.get(f[2]) not in cancelled_ids:
                return "context of handler %s (id %s) cancelled although nobody cancelled that id" % (f[2], tok_id.get(f[2]))
    return None


def mon_duplicate_rejected(sc):
    """C07 (scripted scenarios with per-request deadlines, stepped quiescently): a request whose id is still
    reserved - an earlier call with that id was received and has not been answered - never runs a handler."""
    if not any(l.startswith("env\tbasectx\tdeadlines") for l in sc["lines"]):
        return None
    inflight = {}     # id -> token of the call holding it
    dup_tokens = {}
    for l in sc["lines"]:
        f = l.split("\t")
        if f[0] == "env" and f[1] == "feed" and f[2] in ("msg", "msgeof"):
            seen_here = {}
            for m in _tokens_of_feed(f):
                if m["id"] in ("-", "6e756c6c") or m["err"] != "-":
                    continue
                if m["id"] in inflight or seen_here.get(m["id"]):
                    dup_tokens[m["params"]] = m["id"]
                    if seen_here.get(m["id"]):
                        dup_tokens[seen_here[m["id"]]] = m["id"]
                else:
                    seen_here[m["id"]] = m["params"]
            for i, t in seen_here.items():
                if t not in dup_tokens:
                    inflight[i] = t
        if f[0] == "o" and f[1] == "send" and len(f) > 4:
            for r in f[4].split(";"):
                p = r.split(",")
                if len(p) >= 2 and p[1] in ("R",) or (len(p) >= 3 and p[1] == "E" and p[2] != "-32600"):
                    inflight.pop(p[0], None)
        if f[0] == "o" and f[1] == "start" and f[2] in dup_tokens:
            return "handler %s ran for a request whose id %s was still reserved by an unanswered call" % (f[2], dup_tokens[f[2]])
    return None


PROTOCOL_CODES = {"-32700", "-32600", "-32601", "-32097", "-32096"}


def mon_error_origin(sc):
    """C01/C06/C14: an error response to a call carries either a protocol error of the server (parse error,
    invalid request, method not found, cancellation, deadline) or the error its handler returned - never
    anything else (for instance the cause of a cancelled context instead of the cancellation error)."""
    handler_errs = set()
    for l in sc["lines"]:
        f = l.split("\t")
        if f[0] == "env" and f[1] == "feed" and f[2] == "raw":
            return None
        if f[0] == "env" and f[1] == "gate" and len(f) > 5 and f[3] == "err":
            handler_errs.add((f[4], f[5]))
        if f[0] == "o" and f[1] == "send" and len(f) > 4:
            for r in f[4].split(";"):
                p = r.split(",")
                if len(p) >= 4 and p[1] == "E" and p[2] not in PROTOCOL_CODES and (p[2], p[3]) not in handler_errs:
                    return "error response %s (code %s) for id %s is neither a protocol error nor what a handler returned" % (
                        p[3], p[2], p[0])
    return None


def mon_faults(sc):
    """C10 (and the send mechanism every server property relies on): the instrumented channel saw overlapping
    Send/Recv/Close, a second Close, or a record that is not a JSON-RPC message.  These are observed facts."""
    for l in sc["lines"]:
        f = l.split("\t")
        if f[0] == "fault" and "without holding the owner's mutex" not in l:
            return " ".join(f[1:])
        if f[0] == "o" and f[1] == "sendbad":
            return "record passed to Send is not a complete JSON-RPC message: " + f[3]
    return None


def lock_probe(sc):
    """Send/Close entered while the owner's mutex was free (TryLock probe).  Not by itself a violation of a
    property (another lock might serialise the senders): it breaks the correspondence with the model, whose
    sends are part of critical-section labels; the racing-mode scenarios then look for a real overlap."""
    for l in sc["lines"]:
        if l.startswith("fault\t") and "without holding the owner's mutex" in l:
            return l.split("\t", 1)[1]
    return None


def mon_wait_status(sc):
    """C08: WaitStatus reports at most one flag and a status consistent with some stop cause that occurred."""
    causes = set()
    for l in sc["lines"]:
        f = l.split("\t")
        if f[0] == "env" and f[1] == "start":
            causes = set()
        if f[0] == "env" and f[1] == "callstop":
            causes.add("stop")
        if f[0] == "env" and f[1] == "feed" and f[2] == "err":
            causes.add({"eof": "closed", "closing": "closed", "other": "other"}[f[3]])
        if f[0] == "o" and f[1] == "close":
            causes.add("closed")   # a channel whose Close unblocks Recv yields a closing error
        if f[0] == "o" and f[1] == "waitret":
            if f[2] in ("both", "invalid"):
                return "WaitStatus returned an inconsistent status (%s)" % f[2]
            if f[2] != "none" and f[2] not in causes:
                return "WaitStatus reported %s, which is no stop cause that occurred" % f[2]
    return None


def mon_push(sc):
    """C09: without AllowPush nothing is transmitted by Notify/Callback; a Callback result is a reply the peer sent."""
    push = sc["cfg"].split("\t")[2] == "1"
    for l in sc["lines"]:
        f = l.split("\t")
        if f[0] == "o" and f[1] == "sendreq" and not push:
            return "a request was pushed although AllowPush is off"
        if f[0] == "o" and f[1] == "ret" and len(f) > 3 and f[3] == "unsupported" and push:
            return "ErrPushUnsupported although AllowPush is on"
    return None


MONITORS = {
    "c01": [mon_start_once, mon_response_once, mon_error_origin, mon_faults],
    "c02": [mon_start_once, mon_response_once, mon_faults],
    "c03": [mon_barrier, mon_faults],
    "c06": [mon_concurrency, mon_error_origin, mon_faults],
    "c07": [mon_cancel_target, mon_duplicate_rejected, mon_error_origin, mon_faults],
    "c08": [mon_wait_status, mon_faults],
    "c09": [mon_push, mon_faults],
    "c10": [mon_faults],
}


def nontrivial(sc, fam):
    """Non-triviality rule per family (counted on distinct scenario logs)."""
    txt = "\n".join(sc["lines"])
    if fam == "c01":
        return "\to\tsend\t" in "\n" + txt and "\to\tstart\t" in "\n" + txt or ("o\tsend" in txt and "o\tstart" in txt)
    if fam == "c02":
        return "o\tsend" in txt and (",-32600:" in txt or ",-32700:" in txt or "feed\tbad" in txt or "feed\tempty" in txt)
    if fam == "c03":
        return txt.count("o\tstart") >= 2 and ",67,5b" in txt
    if fam == "c06":
        return txt.count("o\tstart") >= 2
    if fam == "c07":
        return "callcancel" in txt or "6475706c6963617465" in txt
    if fam == "c08":
        return "waitret" in txt
    if fam == "c09":
        return "sendreq" in txt
    if fam == "c10":
        return "o\tsend" in txt
    return True


def run_family(ctx, res, fam, n_quick=1200, n_thorough=24000):
    ok, log = C.go_build_conc()
    if not ok:
        res.violation("corr:harness-build", "the scheduling harness does not build against /repo",
                      dict(kind="broken-correspondence", what="go1.26 test -c -tags verif", log=log[-3000:]),
                      found_input=False)
        return
    seed = ctx["seed"]
    n = n_thorough if ctx["tier"] == "thorough" else n_quick
    if ctx.get("replay"):
        return replay(ctx, res, fam)
    per = (n + SHARDS - 1) // SHARDS
    jobs = []
    with cf.ThreadPoolExecutor(max_workers=SHARDS) as ex:
        for s in range(SHARDS):
            lo, hi = s * per, min(n, (s + 1) * per)
            if lo < hi:
                jobs.append(ex.submit(_worker, fam, seed, lo, hi, s))
        results = [j.result() for j in jobs]
    logs, crashes = [], []
    for l, c in results:
        logs += l
        crashes += c
    judge_logs(ctx, res, fam, logs, crashes)


def judge_logs(ctx, res, fam, logs, crashes):
    pid = ctx["pid"]
    distinct = set()
    evals = 0
    policies = {}
    kinds = {}
    samples = []
    rejected = []
    # model acceptance, one runner process per log
    verdicts = {}
    parsediffs = []

    def _accept(lp):
        if not os.path.exists(lp):
            return lp, 0, ""
        with open(lp, "rb") as f:
            data = f.read()
        rc, out = C.sh([C.runner("run_srv"), fam], stdin=data, timeout=3000)
        return lp, rc, out

    with cf.ThreadPoolExecutor(max_workers=SHARDS) as ex:
        outs = list(ex.map(_accept, logs))
    for lp, rc, out in outs:
        if out and (rc != 0 or "DONE" not in out):
            res.notes.append("model runner failed on %s: %s" % (os.path.basename(lp), out[-300:]))
        for line in out.split("\n"):
            p = line.split(" ", 4)
            if p[0] in ("OK", "REJECT", "FAULT") and len(p) >= 4:
                verdicts.setdefault((p[1], p[2], p[3]), []).append((p[0], p[4] if len(p) > 4 else ""))
            elif p[0] == "PARSEDIFF" and len(p) >= 5:
                parsediffs.append((p[1], p[2], p[3], p[4]))
    for lp in logs:
        if not os.path.exists(lp):
            continue
        for sc in split_scenarios(lp):
            if sc["idx"] is None:
                continue
            evals += 1
            body = "\n".join(l for l in sc["lines"] if not l.startswith("scenario\t"))
            if nontrivial(sc, fam):
                distinct.add(C.sha(body))
            policies[sc.get("policy", "?")] = policies.get(sc.get("policy", "?"), 0) + 1
            for l in sc["lines"]:
                f = l.split("\t")
                k = f[0] + (":" + f[1] if f[0] in ("env", "rel", "o") and len(f) > 1 else "")
                kinds[k] = kinds.get(k, 0) + 1
            if len(samples) < 2 and sc["complete"]:
                samples.append([l[:160] for l in sc["lines"][:40]])
            key = (fam, str(ctx["seed"]), str(sc["idx"]))
            vs = verdicts.get(key, [])
            # monitors on the observed log
            mon_fail = None
            for m in MONITORS.get(fam, []):
                r = m(sc)
                if r:
                    mon_fail = (m.__name__, r)
                    break
            rej = next((v for v in vs if v[0] == "REJECT"), None)
            lp = lock_probe(sc)
            if lp and not mon_fail and not rej:
                rej = ("REJECT", "the model performs every Send/Close inside a critical section of the server mutex; observed: " + lp)
            if mon_fail:
                res.violation("%s:monitor:%s" % (fam, mon_fail[0]), mon_fail[1],
                              dict(kind="failing-history", family=fam, seed=ctx["seed"], idx=sc["idx"],
                                   monitor=mon_fail[0], what=mon_fail[1], model_verdict=rej[1] if rej else "accepted",
                                   log=sc["lines"]), found_input=True)
            elif rej and sc["complete"]:
                rejected.append((sc, rej[1]))
    for sc, why in rejected[:3]:
        # the implementation's behaviour on this history is not a behaviour of the model the theorems are
        # about; no monitor of the property failed on it
        res.violation("corr:SrvModel.step:%s" % fam,
                      "implementation log not accepted by the server model (%s)" % why[:300],
                      dict(kind="broken-correspondence", correspondence="Accept.accept over SrvModel.step, projection " + fam,
                           family=fam, seed=ctx["seed"], idx=sc["idx"], divergence=why, log=sc["lines"]),
                      found_input=False)
    for (f_, s_, i_, raw) in parsediffs[:3]:
        res.violation("corr:Wire.parse_msgs:%s" % fam,
                      "the wire model parses a generated record differently from what the generator built",
                      dict(kind="broken-correspondence", correspondence="Wire.parse_msgs vs generator description",
                           family=f_, seed=s_, idx=i_, record_hex=raw), found_input=False)
    for c in crashes[:3]:
        last = None
        for sc in split_scenarios(c["log"]):
            last = sc
        what = "worker process died"
        o = c["output"]
        if "blocked goroutines remain" in o:
            what = "goroutines left behind after shutdown (synctest: blocked goroutines remain)"
        elif "deadlock" in o:
            what = "deadlock: every goroutine blocked"
        elif "panic:" in o:
            what = "panic: " + o.split("panic:", 1)[1].split("\n", 1)[0].strip()
        elif c["exit"] == 124:
            what = "hang: scenario did not finish (a goroutine blocked on a mutex or spinning)"
        res.violation("%s:crash" % fam, what,
                      dict(kind="failing-history", family=fam, seed=c["seed"], idx=c["idx"], exit=c["exit"], what=what,
                           output=o[-4000:], log=(last["lines"] if last and last["idx"] == c["idx"] else [])),
                      found_input=True)
    res.evaluations = evals
    res.distinct_nontrivial = len(distinct)
    res.samples = samples
    res.extra.update(records_parsed_by_wire_model=kinds.get("env:feed", 0), wire_parse_disagreements=len(parsediffs),
                     schedule_policies=policies, log_item_distribution=kinds, scenarios_rejected=len(rejected),
                     worker_crashes=len(crashes), modes="S (scheduled at verif hook points: fifo = quiescent stepping, random = seeded schedules)")


def replay(ctx, res, fam):
    import json
    with open(ctx["replay"]) as f:
        rp = json.load(f)
    fam = rp.get("family", fam)
    idx = int(rp.get("idx", 0))
    seed = int(rp.get("seed", ctx["seed"]))
    ctx = dict(ctx, seed=seed)
    logs, crashes = _worker(fam, seed, idx, idx + 1, 99)
    judge_logs(ctx, res, fam, logs, crashes)
