"""Driver of the stateful part of C19: jhttp.Channel scenarios (harness/conc/hc.go) run in sharded
worker sub-processes, their logs replayed through the HttpChan model (ocaml/run_hc.ml) and judged by
monitors of the property on the observed log."""
import concurrent.futures as cf
import json
import os
from . import common as C

SHARDS = 4
FAMILIES = {"quick": [("hc:q", 4000), ("hc:closepend", 1500), ("hc:bridge", 800), ("hc:race", 2000), ("hc:bridgerace", 1200)],
            "thorough": [("hc:q", 60000), ("hc:closepend", 20000), ("hc:bridge", 10000), ("hc:race", 40000),
                         ("hc:bridgerace", 20000)]}
# racing families: no quiescence between the actions, so no totally ordered log: judged by monitors only
MONITOR_ONLY = ("hc:race", "hc:bridgerace")


def _worker(fam, seed, lo, hi, shard):
    out = os.path.join(C.OUT, "%s-%d-%d.log" % (fam.replace(":", "_"), seed, shard))
    env = dict(C.GOENV, VERIF_FAMILY=fam, VERIF_SEED=str(seed))
    crashes, logs = [], []
    cur, part = lo, 0
    while cur < hi and len(crashes) < 3:
        pout = out + ".%d" % part
        for p in (pout, pout + ".progress"):
            if os.path.exists(p):
                os.remove(p)
        env.update(VERIF_FROM=str(cur), VERIF_TO=str(hi), VERIF_OUT=pout)
        rc, txt = C.sh([os.path.join(C.BUILD, "conc.test"), "-test.run", "^TestWorker$", "-test.timeout", "20m"],
                       env=env, timeout=1500)
        logs.append(pout)
        prog = ""
        try:
            prog = open(pout + ".progress").read().strip()
        except OSError:
            pass
        if rc == 0 and prog == "done":
            break
        try:
            idx = int(prog)
        except ValueError:
            idx = cur
        crashes.append(dict(family=fam, seed=seed, idx=idx, exit=rc, output=txt[-5000:], log=pout))
        cur = idx + 1
        part += 1
    return logs, crashes


def scenarios(path):
    cur = None
    if not os.path.exists(path):
        return
    with open(path, encoding="utf-8", errors="replace") as f:
        for line in f:
            line = line.rstrip("\n")
            if line.startswith("scenario\t"):
                if cur is not None:
                    yield cur
                p = line.split("\t")
                cur = dict(fam=p[1], seed=p[2], idx=int(p[3]), lines=[line], complete=False)
            elif cur is not None:
                cur["lines"].append(line)
                if line == "end":
                    cur["complete"] = True
    if cur is not None:
        yield cur


def monitor(sc):
    """The property on the OBSERVED log, without the model: after Close has returned every body handed out
    by cli.Do has been closed; a 204 is never delivered to Recv; no reply is delivered twice; every Recv
    delivery is a reply that cli.Do produced, reported with the right kind; no harness fault."""
    do = {}
    got = {}
    closeret = False
    snap = None
    for l in sc["lines"]:
        f = l.split("\t")
        if f[0] == "fault":
            return "harness monitor: " + "\t".join(f[1:])
        if f[0] == "br":
            if len(f) < 6 or f[4] != f[5]:
                return "operation %s over jhttp.Channel+Bridge returned %s, over a direct connection %s" % (
                    f[3] if len(f) > 3 else "?", f[4] if len(f) > 4 else "?", f[5] if len(f) > 5 else "?")
        elif f[:2] == ["env", "do"]:
            do[f[2]] = f[3]
        elif f[:2] == ["env", "send"] and f[2] not in ("ok", "closed"):
            return "Send returned an unexpected error: " + f[2]
        elif f[:2] == ["o", "recv"] and f[2] != "eof":
            j = f[2]
            if j in got:
                return "reply %s delivered to Recv twice" % j
            got[j] = f[3]
            if j not in do:
                return "Recv delivered a reply (%s) that cli.Do never produced" % j
            want = {"200": "data", "err": "doerr"}.get(do[j], "badstatus")
            if do[j] == "204":
                return "a 204 acknowledgement (request %s) was delivered to Recv" % j
            if f[3] != want:
                return "Recv reported request %s (Do result %s) as %s" % (j, do[j], f[3])
        elif f[:2] == ["o", "closeret"]:
            closeret = True
        elif f[0] == "closeret":
            closeret = True
        elif f[0] == "snap":
            snap = (int(f[1]), int(f[2]))
            if len(f) >= 6 and (int(f[3]) != int(f[5]) or int(f[4]) != int(f[3])):
                return ("after Close returned and the bubble was quiescent: %s messages accepted by Send, %s round trips "
                        "started, %s finished" % (f[5], f[3], f[4]))
            if (closeret or sc["fam"] == "hc:bridge") and snap[0] != snap[1]:
                return "after Close returned %d response bodies were opened but %d closed" % snap
    return None


def _classify_crash(o, rc):
    if "blocked goroutines remain" in o:
        return "goroutines left behind in the bubble after Close (synctest: blocked goroutines remain)"
    if "deadlock" in o:
        return "deadlock: every goroutine blocked"
    if "panic:" in o:
        return "panic: " + o.split("panic:", 1)[1].split("\n", 1)[0].strip()
    if rc == 124:
        return "hang: scenario did not finish"
    return "worker process died (exit %s)" % rc


def _accept(lp, nofix=False):
    if not os.path.exists(lp):
        return {}
    with open(lp, "rb") as f:
        data = f.read()
    rc, out = C.sh([C.runner("run_hc")] + (["nofix11"] if nofix else []), stdin=data, timeout=1500)
    v = {}
    if rc != 0 or "DONE" not in out:
        v["__error__"] = out[-500:]
    for line in out.split("\n"):
        p = line.split(" ", 4)
        if p[0] in ("OK", "REJECT") and len(p) >= 4:
            v[(p[1], p[2], p[3])] = (p[0], p[4] if len(p) > 4 else "")
    return v


def judge(ctx, res, fam, logs, crashes, stats):
    verdicts = {}
    if fam not in MONITOR_ONLY:
        for lp in logs:
            verdicts.update(_accept(lp))
    if "__error__" in verdicts:
        res.violation("corr:model-run", "the channel model runner failed",
                      dict(kind="broken-correspondence", part="hc", log=verdicts["__error__"]), found_input=False)
        return
    rejected, monfail = [], []
    for lp in logs:
        for sc in scenarios(lp):
            stats["evals"] += 1
            if fam in MONITOR_ONLY:
                stats["race"] = stats.get("race", 0) + 1
            body = "\n".join(sc["lines"][1:])
            if ("env\tsend\tok" in body and "env\tclose" in body) or "\nbr\t" in "\n" + body or \
                    (fam in MONITOR_ONLY and "sends=0" not in body):
                stats["distinct"].add(C.sha(fam + body))
            for l in sc["lines"]:
                f = l.split("\t")
                if f[0] == "race":
                    k = "race:" + ":".join(x for x in f[1:] if x.startswith(("procs", "sends", "notify")))
                    stats["kinds"][k] = stats["kinds"].get(k, 0) + 1
                    continue
                k = f[0] + (":" + f[1] if f[0] in ("env", "o") else "") + (":" + f[3].split(":")[0] if f[0] == "br" else "")
                if f[:2] == ["env", "do"]:
                    k += ":" + f[3]
                stats["kinds"][k] = stats["kinds"].get(k, 0) + 1
            # replies pending (held or in Do) when Close is called
            pend = 0
            for l in sc["lines"]:
                f = l.split("\t")
                if f[:3] == ["env", "send", "ok"]:
                    pend += 1
                elif f[:2] == ["env", "do"] and f[3] == "204":
                    pend -= 1
                elif f[:2] == ["o", "recv"] and f[2] != "eof":
                    pend -= 1
                elif f[:2] == ["env", "close"]:
                    stats["pending_at_close"][min(pend, 4)] = stats["pending_at_close"].get(min(pend, 4), 0) + 1
                    break
            if len(stats["samples"]) < 2 and sc["complete"] and len(sc["lines"]) > 12:
                stats["samples"].append(sc["lines"][:30])
            m = monitor(sc)
            v = verdicts.get((sc["fam"], sc["seed"], str(sc["idx"])))
            if m:
                monfail.append((sc, m, v))
            elif sc["complete"] and fam not in MONITOR_ONLY and (v is None or v[0] != "OK"):
                rejected.append((sc, v))
    for sc, m, v in monfail[:3]:
        res.violation("c19:hc:monitor:" + C.sha(m.rstrip("0123456789 "))[:8] + ":" + fam, m,
                      dict(kind="failing-history", part="hc", family=fam, seed=ctx["seed"], idx=sc["idx"], what=m,
                           model_verdict=(v[0] + " " + v[1]) if v else "none", log=sc["lines"],
                           replay_cmd="./check C19 --replay <this file>"), found_input=True)
    if rejected and not monfail:
        # directed search (DESIGN 5.6 step 3a): is the observed behaviour the one of the model with fix F11 off?
        nofix = {}
        for lp in logs:
            nofix.update(_accept(lp, nofix=True))
        for sc, v in rejected[:3]:
            k = (sc["fam"], sc["seed"], str(sc["idx"]))
            hint = "accepted by the model with switch fix_F11 off" if nofix.get(k, ("",))[0] == "OK" else "no defect switch explains it"
            res.violation("corr:HttpChan.step:" + fam,
                          "implementation log not accepted by the channel model (%s; %s)" % ((v[1] if v else "no verdict")[:200], hint),
                          dict(kind="broken-correspondence", part="hc", correspondence="HcAccept.accept over HttpChan.step",
                               family=fam, seed=ctx["seed"], idx=sc["idx"], divergence=v[1] if v else "", hint=hint,
                               log=sc["lines"], replay_cmd="./check C19 --replay <this file>"), found_input=False)
    for c in crashes[:3]:
        last = None
        for sc in scenarios(c["log"]):
            last = sc
        what = _classify_crash(c["output"], c["exit"])
        res.violation("c19:hc:crash:" + fam, what,
                      dict(kind="failing-history", part="hc", family=fam, seed=c["seed"], idx=c["idx"], exit=c["exit"], what=what,
                           output=c["output"][-3000:], log=(last["lines"] if last and last["idx"] == c["idx"] else []),
                           replay_cmd="./check C19 --replay <this file>"), found_input=True)


def run_family(ctx, res, fam, lo, hi, stats, shards=SHARDS):
    n = hi - lo
    per = (n + shards - 1) // shards
    jobs = []
    with cf.ThreadPoolExecutor(max_workers=shards) as ex:
        for s in range(shards):
            a, b = lo + s * per, min(hi, lo + (s + 1) * per)
            if a < b:
                jobs.append(ex.submit(_worker, fam, ctx["seed"], a, b, s))
        results = [j.result() for j in jobs]
    logs, crashes = [], []
    for l, c in results:
        logs += l
        crashes += c
    judge(ctx, res, fam, logs, crashes, stats)


def run(ctx, res):
    ok, log = C.go_build_conc()
    if not ok:
        res.violation("corr:harness-build", "the conc harness does not build against /repo",
                      dict(kind="broken-correspondence", what="go1.26 test -c", log=log[-3000:]), found_input=False)
        return
    stats = dict(evals=0, distinct=set(), kinds={}, samples=[], pending_at_close={})
    if ctx["replay"]:
        with open(ctx["replay"]) as f:
            rp = json.load(f)
        if rp.get("part") != "hc":
            return
        c2 = dict(ctx, seed=int(rp.get("seed", ctx["seed"])))
        run_family(c2, res, rp["family"], int(rp["idx"]), int(rp["idx"]) + 1, stats, shards=1)
    else:
        for fam, n in FAMILIES[ctx["tier"]]:
            run_family(ctx, res, fam, 0, n, stats)
    res.evaluations += stats["evals"]
    res.distinct_nontrivial += len(stats["distinct"])
    res.extra["hc_event_distribution"] = stats["kinds"]
    res.extra["hc_replies_pending_when_close_called"] = {str(k): v for k, v in sorted(stats["pending_at_close"].items())}
    res.extra["modes"] = dict(Q=stats["evals"] - stats.get("race", 0), S=0, R=stats.get("race", 0))
    for s in stats["samples"][:1]:
        res.samples.append(" / ".join(x.replace("\t", " ") for x in s))
