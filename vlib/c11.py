"""C11 - framing round trip for any fragmentation.
Models: coq/frame/{Split,Hdr,RawJson,JsonScan,Direct}.v; runner: ocaml/run_frame.ml;
harness: harness/pure/c11.go + frame.go (real Send, real Recv behind a chunk-controlled io.Reader)."""
import json
import os
import re
from . import common as C
from . import framelib

TRUSTED = [
    "the models are functions of the concatenated stream; independence from the transport's cutting is the documented "
    "contract of bufio.Reader.ReadSlice/ReadString, io.ReadFull/CopyN and json.Decoder (modelled in coq/frame/FrameBase.v, "
    "JsonScan.v) and is what this harness tests: the real Recv runs behind a chunk-controlled io.Reader",
    "harness and model runner expand the same byte specs (splitmix64 streams, repeated units) and print long records as length+FNV-1a hash",
]
ASSUMPTIONS = [
    "a Go slice is never longer than MaxInt64 (hypothesis of c11_hdr)",
    "media type of a header framing is its own strings.TrimSpace and has no line feed (usable_mime; holds for LSP's constant and for \"\")",
    "RawJSON: the round trip is claimed for the empty record and for JSON objects, arrays and strings without outer white space "
    "(json_record, a boolean checker over the scanner model); bare numbers and literals are not self-delimiting and outside the claim",
]

RULE = ("pipelined round trips through the real Send and the real Recv of Line/Split(b)/StrictHeader(mt)/Header(mt)/LSP/RawJSON behind a "
        "chunk-controlled reader: EVERY cut set x both EOF modes for streams <= 13 bytes (RX), every cut set with <= 2-3 cuts for streams "
        "<= 200 bytes (RK), whole/1-byte reads with and without data+EOF, cuts at every structural byte and at the bufio window, seeded random "
        "cuts for records up to 256 KiB (quick) / 8 MiB (thorough), header size sequences that grow past 1 MiB and shrink below a quarter; "
        "channel.Direct FIFO; IsErrClosing error trees.  non-trivial = distinct case line in which at least one record was received "
        "or refused (R/RX/RK/D), or an IsErrClosing tree with a wrapped/joined error")


def _nontrivial(f):
    k, o = f[0], f[-1]
    if k in ("R", "RX", "RK"):
        s, _, r = o.partition("|")
        return ("R" in s.split(",")) or any(t[:1] in ("r", "e") for t in r.split(","))
    if k == "D":
        return o.startswith("r")
    if k == "I":
        return "(" in f[1]
    return False


def run(ctx, res, cmd="c11", pid="C11"):
    ok, log = C.go_build_pure()
    if not ok:
        res.violation("corr:harness-build", "the harness does not build against /repo",
                      dict(kind="broken-correspondence", what="go build", log=log[-3000:]), found_input=False)
        return
    cases = os.path.join(C.OUT, "%s-%d.cases" % (cmd, ctx["seed"]))
    replay_in = None
    if ctx["replay"]:
        with open(ctx["replay"]) as f:
            rp = json.load(f)
        replay_in = os.path.join(C.OUT, cmd + "-replay.in")
        with open(replay_in, "w") as f:
            for c in rp.get("cases", []):
                f.write(c["input"] + "\n")
    rc, out = C.run_pure(cmd, cases, ctx["seed"], ctx["tier"], replay=replay_in, timeout=3000)
    if rc != 0:
        res.violation("corr:harness-run", "the harness failed or crashed (exit %d)" % rc,
                      dict(kind="harness-failure", log=out[-3000:]), found_input=False)
        return
    stats = dict(re.findall(r"^stat (\w+)=(\d+)$", out, flags=re.M))
    okm, mism, total, raw = framelib.run_model_sharded("run_frame", cases)
    if not okm or "BADLINE" in raw:
        res.violation("corr:model-run", "the model runner failed", dict(kind="broken-correspondence", log=raw[-3000:]),
                      found_input=False)
        return
    lines = C.read_cases(cases)
    res.evaluations = total
    nontriv = set()
    kinds, framings = {}, {}
    for l in lines:
        f = l.split("\t")
        kinds[f[0]] = kinds.get(f[0], 0) + 1
        if f[0] in ("R", "RX", "RK", "V", "VX", "VK"):
            fam = f[1].split(":")[0]
            framings[fam] = framings.get(fam, 0) + 1
        if _nontrivial(f):
            nontriv.add(l)
    res.distinct_nontrivial = len(nontriv)
    res.rule = RULE
    res.extra["line_kinds"] = kinds
    res.extra["framing_distribution"] = framings
    res.extra["harness_stats"] = {k: int(v) for k, v in stats.items()}
    res.extra["exhaustive_families"] = ("RX/VX lines: all 2^(n-1) cut sets x 2 EOF modes of the stream; RK/VK: all cut sets with <= k cuts; "
                               "cutset_runs in harness_stats counts the individual receive runs")
    res.samples = ([l for l in lines if l.startswith("RX")][:2] + [l for l in lines if l.startswith("R\t") and len(l) < 300][:3]
                   + [l for l in lines if l.startswith("D")][:1])
    # every observable is at the level of the property (records received, in order, byte for byte,
    # then EOF; refusals): a disagreement with the model is a violation of the property on that input
    for m in mism[:20]:
        line = lines[m["line"] - 1]
        inp = "\t".join(line.split("\t")[:-1])
        what = "round trip differs from the specification"
        if "DIVERGE" in m["got"]:
            what = "Recv results depend on how the stream is cut into reads"
        elif "PANIC" in m["got"]:
            what = "Recv/Send panicked"
        res.violation(cmd + ":" + C.sha(inp), what,
                      dict(kind="failing-input", cases=[dict(input=inp, expected=m["expected"][:2000], got=m["got"][:2000])],
                           replay_cmd="./check %s --replay <this file>" % pid))
