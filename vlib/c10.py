"""C10 - server property; model coq/srv/SrvModel.v, acceptor coq/srv/Accept.v (projection "c10"),
harness harness/conc (family "c10"), driver vlib/srvlib.py."""
from . import srvlib
from . import clilib
from . import looplib

TRUSTED = ["sync.Mutex critical sections are atomic and sequentially consistent (one model label per critical section)",
           "sync.WaitGroup, x/sync/semaphore.Weighted (FIFO, cancelled contexts fail), context cancellation, buffered channels: "
           "modelled by their documented semantics",
           "testing/synctest's definition of durable blocking (quiescence oracle); verif hook points (add-only, no data)",
           "harness canonicalises sent records with encoding/json (byte-level encoding is C13's subject)"]
ASSUMPTIONS = ["the peer keeps receiving (Send never blocks for ever)", "handlers return when the harness lets them (gated handlers)",
               "Start is called only after WaitStatus returned"]


def run(ctx, res):
    if ctx.get("replay"):
        import json
        with open(ctx["replay"]) as f:
            fam = json.load(f).get("family", "c10")
        if str(fam).startswith("cli:"):
            return clilib.run_family(ctx, res, "cli:c10")
        if str(fam).startswith("loop:"):
            return looplib.run_family(ctx, res, "loop:c20")
        return srvlib.run_family(ctx, res, "c10")
    # the server's side of the channel ...
    srvlib.run_family(ctx, res, "c10")
    ev, dn, samples, extra = res.evaluations, res.distinct_nontrivial, list(res.samples or []), dict(res.extra)
    # ... and the client's side (family cli:c10 of the client harness, client model coq/cli/CliModel.v)
    clilib.run_family(ctx, res, "cli:c10", n_quick=2000, n_thorough=40000)
    ev2, dn2, samples2, extra2 = res.evaluations, res.distinct_nontrivial, list(res.samples or []), dict(res.extra)
    # ... and the channels server.Loop hands to the servers it starts (each closed exactly once, whatever the
    # server's exit status): the loop family with its channel-close accounting
    looplib.run_family(ctx, res, "loop:c20", n_quick=800, n_thorough=20000)
    res.extra = dict(server_side=extra, client_side=extra2, loop_side=dict(res.extra))
    res.evaluations += ev + ev2
    res.distinct_nontrivial += dn + dn2
    res.samples = samples[:1] + samples2[:1] + list(res.samples or [])[:1]
    res.rule = ("scenario = seeded history of environment actions (records fed: single/batch, calls, notifications, each "
                "single-defect invalid member, reply-shaped members, non-JSON; handler completions with results/errors; "
                "CancelRequest, Stop, Notify/Callback, context ends, Recv errors, Send failures, restart) interleaved with "
                "releases of goroutines parked at the verif scheduling points (fifo = quiescent stepping, random = seeded "
                "schedule); family 'c10' weights the actions towards this property; every log is replayed through the Coq server "
                "model (projection 'c10') and judged by the property monitors; non-trivial = distinct log satisfying the family's "
                "rule (srvlib.nontrivial); client side: family cli:c10 of the client harness (operations, peer replies and "
                "requests, cancels, deadlines, Close, Recv errors, Send faults at individual Send calls) on the same "
                "instrumented channel, logs replayed through the Coq client model; the channel's discipline monitors (two "
                "Sends / two Recvs in progress, Send or Close without the owner's mutex, Send overlapping Close, Close count, "
                "complete JSON-RPC messages) judge both sides")
