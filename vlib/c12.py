"""C12 - framing robustness on arbitrary streams.
Models: coq/frame/{Split,Hdr,RawJson,JsonScan}.v, reference grammars coq/frame/FrameSpec.v;
runner: ocaml/run_frame.ml; harness: harness/pure/c12.go + frame.go (real Recv over arbitrary,
malformed and truncated streams; panics recovered, process deaths observed in worker sub-processes)."""
import json
import os
import re
from . import common as C
from . import framelib

TRUSTED = [
    "stream contracts of bufio.Reader.ReadSlice/ReadString, io.ReadFull/CopyN, strconv.Atoi, strings.TrimSpace/ToLower/SplitN/TrimRight and "
    "json.Decoder value boundaries as modelled in coq/frame/FrameBase.v, Hdr.v, JsonScan.v (each exercised by this harness)",
    "a panic inside Recv is recovered by the harness (observation PANIC); lines that can exhaust memory run in worker sub-processes "
    "under RLIMIT_AS, a worker death is the observation DIED(...)",
]
ASSUMPTIONS = [
    "make([]byte, n) panics exactly when n < 0 or n > 2^48 (linux/amd64 maxAlloc); an allocation the runtime accepts but the machine "
    "cannot satisfy is a fatal error outside the model (unreachable in the fixed code: n <= 2^25)",
]

RULE = ("arbitrary streams through the real Recv of Line/Split/StrictHeader/Header/LSP/RawJSON until the first repeated bare error: "
        "EXHAUSTIVE streams of <= L symbols over per-framing alphabets (bytes; header tokens; JSON tokens), each under every cut set "
        "(<= 13 bytes) or every single cut x both EOF modes; every truncation point of valid multi-record streams; Content-Length fuzz "
        "(signs, ASCII/Unicode spaces, bases, 19-21 digit numbers, 2^62, 2^63-1, 2^63, 2^63+1, 2^64, sizes around 1 MiB / 16 MiB / 2^48); "
        "structured header blocks (name case, unknown fields, duplicates, terminators, content-type policy); mutated valid streams.  "
        "non-trivial = distinct case line whose observation is more than a bare clean EOF (a record, a record with error, or a non-EOF error)")


def _nontrivial(f):
    return f[-1] not in ("E:EOF", "")


def run(ctx, res):
    cmd, pid = "c12", "C12"
    ok, log = C.go_build_pure()
    if not ok:
        res.violation("corr:harness-build", "the harness does not build against /repo",
                      dict(kind="broken-correspondence", what="go build", log=log[-3000:]), found_input=False)
        return
    cases = os.path.join(C.OUT, "%s-%d.cases" % (cmd, ctx["seed"]))
    replay_in = None
    if ctx["replay"]:
        with open(ctx["replay"]) as f:
            rp = json.load(f)
        replay_in = os.path.join(C.OUT, cmd + "-replay.in")
        with open(replay_in, "w") as f:
            for c in rp.get("cases", []):
                f.write(c["input"] + "\n")
    rc, out = C.run_pure(cmd, cases, ctx["seed"], ctx["tier"], replay=replay_in, timeout=3000)
    if rc != 0:
        res.violation("corr:harness-run", "the harness failed, crashed or hung (exit %d)" % rc,
                      dict(kind="harness-failure", log=out[-3000:]), found_input=False)
        return
    stats = dict(re.findall(r"^stat (\w+)=(\d+)$", out, flags=re.M))
    okm, mism, total, raw = framelib.run_model_sharded("run_frame", cases)
    if not okm or "BADLINE" in raw:
        res.violation("corr:model-run", "the model runner failed", dict(kind="broken-correspondence", log=raw[-3000:]),
                      found_input=False)
        return
    lines = C.read_cases(cases)
    res.evaluations = total
    nontriv = set()
    kinds, framings, errs = {}, {}, {}
    tok = re.compile(r"(?:^|,)(?:r[^,]*|e(?:#\d+:[0-9a-f]+|[^,:#]*):(\w+)(?:\([^)]*\))?|E:(\w+)(?:\([^)]*\))?|(PANIC|RUNAWAY|DIED[^,]*|DIVERGE.*))")
    for l in lines:
        f = l.split("\t")
        kinds[f[0]] = kinds.get(f[0], 0) + 1
        fam = f[1].split(":")[0]
        framings[fam] = framings.get(fam, 0) + 1
        if _nontrivial(f):
            nontriv.add(l)
        o = f[-1]
        seen = set()
        if re.search(r"(^|,)r", o):
            seen.add("record")
        for m in tok.finditer(o):
            k = m.group(1) and ("record+" + m.group(1)) or m.group(2) or (m.group(3) and m.group(3)[:7])
            if k:
                seen.add(k)
        for k in seen:
            errs[k] = errs.get(k, 0) + 1
    res.distinct_nontrivial = len(nontriv)
    res.rule = RULE
    res.extra["line_kinds"] = kinds
    res.extra["framing_distribution"] = framings
    res.extra["observation_distribution"] = errs
    res.extra["harness_stats"] = {k: int(v) for k, v in stats.items()}
    res.extra["exhaustive_families"] = ("alphabets and lengths: see c12Exhaustive in harness/pure/c12.go; VX lines = all cut sets x 2 EOF modes, "
                               "VK k = all cut sets with <= k cuts x 2 EOF modes")
    res.samples = ([l for l in lines if "ILEN" in l][:2] + [l for l in lines if "CTM" in l and len(l) < 300][:2]
                   + [l for l in lines if l.startswith("VX\tline") and ":EOF" in l][:2] + [l for l in lines if "UEOF" in l and len(l) < 300][:2])
    for m in mism[:20]:
        line = lines[m["line"] - 1]
        inp = "\t".join(line.split("\t")[:-1])
        got = m["got"]
        what = "Recv results on this stream differ from the specification"
        if "DIVERGE" in got:
            what = "Recv results depend on how the stream is cut into reads"
        elif "PANIC" in got:
            what = "Recv panicked on this stream"
        elif "DIED" in got:
            what = "the process died in Recv on this stream (fatal runtime error)"
        elif "RUNAWAY" in got:
            what = "Recv keeps returning results on an exhausted stream"
        res.violation(cmd + ":" + C.sha(inp), what,
                      dict(kind="failing-input", cases=[dict(input=inp, expected=m["expected"][:2000], got=got[:2000])],
                           replay_cmd="./check %s --replay <this file>" % pid))
