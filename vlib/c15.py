"""C15 - handler.New / Check.  Model: coq/hand/Handler.v; runner: ocaml/run_hand.ml;
harness: harness/pure/c15.go (function values generated with reflect.FuncOf/StructOf/MakeFunc)."""
from . import handlib

TRUSTED = [
    "encoding/json and reflect are not modelled: the json-decode oracle of the model is instantiated, per case, by "
    "the harness calling encoding/json directly on the declared parameter type (json.Unmarshal / Decoder with "
    "DisallowUnknownFields) and handing the answers to the model runner in the case line",
    "the harness builds Go types from the same descriptors the model runner parses (reflect.StructOf/FuncOf; a fixed "
    "registry of 17 declared types for everything that needs methods, unexported or embedded fields)",
]
ASSUMPTIONS = [
    "parameter types json.RawMessage / *json.RawMessage (copied without decoding by UnmarshalParams) are outside the grammar",
    "'never panics' is observed (recover around Check, Wrap and the call), not proved: reflect is not modelled",
]


def kind_of(f):
    if f[0] == "K":
        return "K:" + f[-1].split(":")[0]
    o = f[-1]
    if f[0] == "Wc":
        return "Wc:procs=%s:%s" % (f[6], "ok" if "+" not in o and "X:" not in o else "MIXED")
    vi = 6 if f[0] == "Ws" else 5
    view = f[vi][0] if len(f) > vi else "?"
    return "%s:%s:%s" % (f[0], view, o[:2] if o[0] == "C" else o.split(":")[0])


def nontrivial(f):
    if f[0] in ("K", "Wc"):
        return True
    if f[0] == "Ws":   # a request served by a handler that has served others before
        return not f[1].endswith(".0")
    return len(f) > 5 and f[5] != "A" and not f[-1].startswith("err:")


def run(ctx, res):
    lines = handlib.run(ctx, res, "c15", "C15", nontrivial, kind_of)
    res.rule = ("K: every generated value (function types over the type grammar: scalars, any, slices, arrays, maps, "
                "pointers, generated structs with tagged/untagged/unexported/embedded/json:\"-\" fields, 17 declared types "
                "with and without DisallowUnknownFields on value/pointer receivers, declared pointer types, *jrpc2.Request, "
                "no parameter; wrong arities, variadic, non-context first parameter, non-error second result, nil, "
                "non-functions) handed to handler.Check; W: accepted functions x SetStrict/AllowArray settings (unset/true/"
                "false each) x params (absent, null, {}, objects with all/some/unknown/case-variant/duplicate keys and "
                "wrong-typed values, arrays of every length 0..n+2, wrong element types, nulls, rotated elements, leading "
                "whitespace, scalars, malformed texts) x nil/non-nil error result; compared: called how often, the "
                "argument's JSON re-encoding, result and error identity, error code, panics.  Ws: ONE wrapped handler "
                "value serves a list of requests in order (requests rejected after partial decoding followed by valid "
                "requests that leave arguments unspecified; random lists), every request predicted by itself.  Wc: ONE "
                "wrapped handler value called by 8 goroutines (barrier start, 2000-4800 calls, GOMAXPROCS 1..16) with 12 "
                "params texts carrying pairwise different values, on every wrapper path (plain, strict, array, "
                "strict+array); per text the SET of observed outcomes must be the one predicted outcome.  "
                "non-trivial = distinct K line, W line with non-empty params on an accepted function, Ws line "
                "after the first of its sequence, Wc line")
    if lines:
        res.samples = ([l[:400] for l in lines if l.startswith("W") and "\tC1:" in l and "\tR:" in l][:2] +
                       [l[:400] for l in lines if l.startswith("W") and l.endswith("\tI")][:2] +
                       [l[:400] for l in lines if l.startswith("K")][:2])
