"""C20 - server.Loop; model coq/loop/Loop.v, acceptor coq/loop/LoopAccept.v, harness harness/conc/loop.go
(family "loop:c20"), driver vlib/looplib.py."""
from . import looplib

TRUSTED = ["one model label per step of a Loop goroutine between blocking points (wg.Add/Done/Wait, go statement, Accept, "
           "WaitStatus, context cancellation modelled by their documented semantics)",
           "the inner jrpc2 server is abstract: it exits only after Stop / peer close / transport failure and after its handlers "
           "returned, with a status naming a cause that occurred, having closed its channel exactly once (properties C08/C10)",
           "testing/synctest's definition of durable blocking (quiescence oracle); verif hook points loop.conn / loop.finish "
           "(add-only, no data); runtime.Stack to count the goroutines of the bubble",
           "the harness's in-memory Accepter, connections, raw clients and instrumented services (harness/conc/loop.go)"]
ASSUMPTIONS = ["the accepter honours its context (Accept fails with a closing error when ctx ends, like NetAccepter)",
               "handlers return when the harness lets them (gated handlers that ignore cancellation)",
               "newService returns a new instance on every call (the harness's does)"]


def run(ctx, res):
    looplib.run_family(ctx, res, "loop:c20")
    if not ctx.get("replay"):
        # NetAccepter (the accepter Loop is normally given) is outside the Loop model, whose accepter is scripted
        from . import common as C
        C.run_probes(res, "C20", ["netacc-ctx-before-loop", "netacc-ctx-between-accepts", "netacc-ctx-during-accept",
                              "loop-finish-after-handlers"])
    res.assumptions = ASSUMPTIONS
    res.rule = ("scenario = seeded history of 0-5 connections: accepter yields a connection / fails with a closing or another "
                "error, context end, client close, transport failure, calls with gated handlers, gate releases, Assigner "
                "failures (per-instance plan), interleaved with releases of the goroutines parked at loop.conn / loop.finish "
                "(nohook = quiescent stepping, fifo, random = seeded schedule), then a shutdown epilogue; every log is replayed "
                "through the Coq Loop model (LoopAccept.accept: NewSvc/Assigner/call/Finish/return observations per window, "
                "parked goroutines per scheduling point, final close counts and return) and judged by the C20 monitors "
                "(fresh service, Finish once after exit with its assigner and status, Loop returns last with the right value, "
                "every channel closed once, no goroutine left); non-trivial = distinct log with at least one Finish and a return")
