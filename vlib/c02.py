"""C02 - JSON-RPC 2.0 conformance on arbitrary inbound records.  This module runs the PURE part: the two-level
parse (envelope, then member scan) of coq/wire/Wire.v against jrpc2.ParseRequests on the per-field variant
product, batches, random and mutated records, with map-order dependent outcomes judged against the model's
allowed set; plus the encoding/json glue the parser model relies on.  The live-server part (replies, handler log,
liveness probe) is driven by the server model."""
from . import wirelib, srvlib
from . import common as C

TRUSTED = ["encoding/json Unmarshal into RawMessage / []RawMessage / map[string]RawMessage / string / **Error is modelled by "
           "coq/json/Json.v and compared with the real package on every run (jsonglue family)",
           "Go map iteration order: the harness executes every case 6 times and requires every observed outcome to lie in "
           "the model's allowed set (proved order independent in c02_member_err_order_independent)"]
ASSUMPTIONS = ["nesting depth of inbound values at most encoding/json's limit of 10000 (modelled, tested at the boundary in the thorough tier)"]


TRUSTED += ["live-server part: as C01 (server model SrvModel.v, scheduling harness, synctest)"]


def run(ctx, res):
    wirelib.run_wire(ctx, res, "c02pure")
    if ctx.get("replay"):
        import json
        try:
            if json.load(open(ctx["replay"])).get("family") != "c02":
                return
        except Exception:
            return
    # live-server part: records of the per-field variant families fed to a running server (family c02): replies,
    # handler log and continued service compared with the server model, whose classification of members is the
    # one proved about Wire.parse_member (c02_parse_classification)
    r2 = C.Result()
    srvlib.run_family(ctx, r2, "c02")
    res.violations += r2.violations
    res.evaluations += r2.evaluations
    res.distinct_nontrivial += r2.distinct_nontrivial
    res.samples = (res.samples or [])[:4] + (r2.samples or [])[:2]
    res.notes += r2.notes
    res.rule = (res.rule or "") + " || live server: seeded histories of family c02 (mostly invalid members of every single-defect " \
        "kind, exotic ids, reply-shaped members, non-JSON and empty batches, interleaved with valid calls whose answers show " \
        "the server keeps serving) run under the scheduling harness and replayed through the server model"
    res.extra["live_server"] = r2.extra

