from . import srvlib
def run(ctx,res):
    srvlib.run_family(ctx,res,"c02")
