"""C02 - JSON-RPC 2.0 conformance on arbitrary inbound records.  This module runs the PURE part: the two-level
parse (envelope, then member scan) of coq/wire/Wire.v against jrpc2.ParseRequests on the per-field variant
product, batches, random and mutated records, with map-order dependent outcomes judged against the model's
allowed set; plus the encoding/json glue the parser model relies on.  The live-server part (replies, handler log,
liveness probe) is driven by the server model."""
from . import wirelib

TRUSTED = ["encoding/json Unmarshal into RawMessage / []RawMessage / map[string]RawMessage / string / **Error is modelled by "
           "coq/json/Json.v and compared with the real package on every run (jsonglue family)",
           "Go map iteration order: the harness executes every case 6 times and requires every observed outcome to lie in "
           "the model's allowed set (proved order independent in c02_member_err_order_independent)"]
ASSUMPTIONS = ["nesting depth of inbound values at most encoding/json's limit of 10000 (modelled, tested at the boundary in the thorough tier)"]


def run(ctx, res):
    wirelib.run_wire(ctx, res, "c02pure")
