"""C13 - wire encoding.  Model: coq/json/Json.v + coq/wire/Wire.v; runners: ocaml/run_wire.ml, ocaml/run_json.ml;
harness: harness/pure/c13.go (real client / server / bridge on in-memory channels, bytes captured on the raw end)
and harness/pure/json_glue.go (encoding/json entry points the model relies on)."""
import os
from . import common as C
from . import wirelib

TRUSTED = ["encoding/json (Marshal of string / RawMessage / *Error, Unmarshal into RawMessage, []RawMessage, "
           "map[string]RawMessage, string, **Error, Compact, Valid) is modelled by coq/json/Json.v and compared with the "
           "real package on every run (jsonglue family)",
           "the harness turns an abstract message (id, method, params, result, error) into library calls; handlers return "
           "the given raw values"]
ASSUMPTIONS = ["method names are valid UTF-8", "ids are JSON string or number literals and valid UTF-8 (client ids are decimal counters)",
               "params / results / error data are valid JSON texts and valid UTF-8 (what json.Marshal returns for a marshalable value); "
               "error data that are not JSON at all are inside the domain too: since fix F16/F17 jmessage.toJSON writes the error "
               "without them (c13_undeliverable_error_data_dropped; before the fix the record was not sent: c13_refuted_without_F16)",
               "nesting depth of values below encoding/json's limit of 10000 (minus the two levels of the envelope)"]


def run(ctx, res):
    wirelib.run_wire(ctx, res, "c13")
    if not ctx.get("replay"):
        # what reaches the peer when several goroutines push at once over framings that build their frames in a
        # per-channel buffer: whole, valid, one-line messages (scripted probe of harness/conc)
        ok, log = C.go_build_conc()
        if not ok:
            res.violation("corr:harness-build", "the scheduling harness does not build against /repo",
                          dict(kind="broken-correspondence", what="go1.26 test -c -tags verif", log=log[-3000:]),
                          found_input=False)
        else:
            C.run_probes(res, "C13", ["wire-concurrent-pushes"])
