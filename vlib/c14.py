"""C14 - errors keep their code, message and data from handler to caller.
Model: coq/errs/Errs.v (+ coq/errs/ErrsJson.v for the encoding/json contracts);
runner: ocaml/run_errs.ml; harness: harness/pure/c14.go (error terms interpreted into
real Go errors and returned through a real server + client pair)."""
import json
import os
from . import common as C

TRUSTED = [
    "Go harness interprets the same error-term text as the model runner (J/V/F/C/K/X/D/P/W/L constructors); "
    "custom ErrCoder types of the harness stand for all user-defined ErrCoder types",
    "encoding/json behaviour used by the model (Marshal of a RawMessage = scanner-validated compaction with HTML "
    "escaping; string round trip = invalid UTF-8 replaced by U+FFFD; the text of json.Marshal's own errors is taken "
    "from the real call) - modelled in coq/errs/ErrsJson.v and compared with the real functions in families G and S",
]
ASSUMPTIONS = [
    "c14_error_verbatim: Error.Data is empty or valid JSON (wire_data d = Some d'; otherwise json.Marshal of the "
    "*Error fails and, since fix F16, the error is sent without its data - same code, same message: "
    "c14_undeliverable_data_dropped; before the fix no reply was sent, nor any other reply of the same batch: "
    "c14_error_verbatim_refuted_without_F16, c14_refuted_without_F16) and Error.Message is valid UTF-8 "
    "(otherwise each bad byte arrives as U+FFFD: c14_error_verbatim_refuted_invalid_utf8); data arrives as "
    "json.Marshal's compaction of it, proved JSON-equal in the sense of ErrsJson.json_content: the same significant "
    "bytes outside strings and the same string characters, an ASCII byte / U+2028 / U+2029 being identified with its "
    "\\uXXXX escape (c14_data_json_equal; finer than equality of JSON values, so it implies it)",
    "c14_code_preserved: exact domain code_dom - the error is not classified NoError by ErrorCode unless it is a "
    "top-level *Error (tasks.responses sends InternalError instead: c14_code_preserved_refuted_noerror_coder); no "
    "condition on the data any more (c14_reply_never_lost; before fix F16: c14_code_preserved_exact_without_F16)",
    "c14_sentinels: no ErrCoder anywhere in the error tree (errors.As runs before errors.Is: "
    "c14_sentinels_refuted_coder_wins)",
    "codes are int32 in Go; the model's theorems hold for every integer",
]


def _nontrivial(fields):
    """A case is non-trivial when a non-nil error or an unmarshalable result travels to the caller
    (kind is not a plain success), or it is a WithData / Code.Err case."""
    k = fields[0]
    obs = fields[-1]
    if k == "E":
        return obs.split("|")[2] != "R"
    if k == "R":
        return obs.split("|")[0] != "R"
    if k in ("N", "C", "W", "K", "B"):
        return True
    return False  # G and S are glue families


def _run_pure(ctx, res):
    ok, log = C.go_build_pure()
    if not ok:
        res.violation("corr:harness-build", "the harness does not build against /repo",
                      dict(kind="broken-correspondence", what="go build", log=log[-3000:]), found_input=False)
        return
    cases = os.path.join(C.OUT, "c14-%d.cases" % ctx["seed"])
    replay_in = None
    if ctx["replay"]:
        with open(ctx["replay"]) as f:
            rp = json.load(f)
        replay_in = os.path.join(C.OUT, "c14-replay.in")
        with open(replay_in, "w") as f:
            for c in rp.get("cases", []):
                f.write(c["input"] + "\n")
    rc, out = C.run_pure("c14", cases, ctx["seed"], ctx["tier"], replay=replay_in, timeout=3000)
    if rc != 0:
        res.violation("corr:harness-run", "the harness failed or crashed (exit %d)" % rc,
                      dict(kind="harness-failure", log=out[-3000:]), found_input=False)
        return
    okm, mism, total, raw = C.run_model("run_errs", cases, timeout=3000)
    lines = C.read_cases(cases)
    if not okm or total != len(lines) or "BADLINE" in raw:
        res.violation("corr:model-run", "the model runner failed or skipped lines (%d of %d)" % (total, len(lines)),
                      dict(kind="broken-correspondence", log=raw[-3000:]), found_input=False)
        return
    res.evaluations = total
    nontriv = set()
    dist = {}
    samples = {}
    for l in lines:
        f = l.split("\t")
        k = f[0]
        obs = f[-1]
        if k == "E":
            key = "E:" + obs.split("|")[2]
        elif k == "R":
            key = "R:" + f[1] + ":" + obs.split("|")[0]
        elif k == "K":
            key = "K:" + f[1] + ":" + obs.split("|")[0]
        elif k == "B":
            kinds = set(x.split("|")[0] for x in obs.split("/"))
            key = "B:" + ("lost" if "L" in kinds else "error" if "J" in kinds else "results")
        elif k == "N":
            key = "N:" + ("none" if obs == "none" else "reply")
        elif k == "W":
            key = "W:" + ("crash" if obs == "crash" else "retnil" if obs.startswith("retnil") else
                          "same" if obs.startswith("1|") else "copy")
        elif k == "G":
            key = "G:" + ("invalid" if obs == "invalid" else "valid")
        else:
            key = k
        dist[key] = dist.get(key, 0) + 1
        samples.setdefault(key, l if len(l) < 400 else l[:400] + "...")
        if _nontrivial(f):
            nontriv.add(l)
    res.distinct_nontrivial = len(nontriv)
    res.rule = (
        "E: error terms (jrpc2 *Error / Error value / Errorf / Code.Err / 5 receiver kinds of custom ErrCoder / "
        "context sentinels / plain / fmt.Errorf %w / errors.Join) built as real Go errors and returned by a handler "
        "through a real server+client: fixed corner corpus; every leaf over 9 codes x 3 messages x 3 data; code sweep "
        "over int32 boundaries, all predefined codes +-5 and random int32 through 6 carriers; EXHAUSTIVE nesting over 12 "
        "representative leaves: all Wrap/Join(<=2, and all 3-joins of leaves) terms to depth 2 (thorough: depth 3 with "
        "one non-leaf operand per join); random terms to depth 6 over rich message/data pools. R: results json.Marshal "
        "rejects (12 kinds) and Marshalers failing with an error term. N: the same as notifications. K: the handler returns "
        "(value, error term) only after the server-side context of its own request is done - Server.CancelRequest(req.ID()) "
        "from the handler (self) or from a goroutine it waits for (helper), cancellation of the ServerOptions.NewContext "
        "context (base), or its deadline passing (deadline), plus a live control on the same server: every leaf of the "
        "basis, every depth-1 term over the 12 representative leaves and corner terms in the three cancellation modes, the "
        "representative terms under a deadline (thorough: all), good / raw / unmarshalable results in all modes, random "
        "terms to depth 4; the handler checks that it saw ctx.Err() as the mode requires. F16: a top-level *Error whose "
        "Data is not JSON (11 kinds of bad data x 5 codes x 2 messages, and by value / wrapped / joined / with an "
        "unmarshalable result / as a notification / cancelled; 1 in 16 of the random data) must arrive without its data, "
        "never be lost. B (F17): Client.Batch of 1-6 calls whose handlers return (value, error term) - fixed cases around "
        "a *Error with bad data next to well-formed calls, and random batches - every member must get the reply it would "
        "get alone (compared on the wire level: result / error object / lost). C: "
        "ErrorCode(Code(c).Err()). W: WithData (receiver kept, copy/same pointer, nil receiver). G,S: glue families "
        "for the encoding/json contracts. Compared per case: ErrorCode and Error() of the built error, kind of the "
        "error Call returns (*Error / exact sentinel / none / lost), its ErrorCode, message, data. Non-trivial = distinct "
        "case in which an error or an unmarshalable result travels (E/R with a non-success outcome), or an N/C/W case; "
        "G/S count in evaluations only")
    res.extra["outcome_distribution"] = dist
    res.extra["exhaustive_families"] = ("all terms of depth <= 2 over the 12-leaf basis (joins of width <= 2, 3-joins of leaves)"
                               + ("; depth 3 with one non-leaf operand per join" if ctx["tier"] == "thorough" else ""))
    order = ["E:J", "E:C", "E:D", "K:self:J", "B:error", "R:u:J", "N:reply", "W:copy"]
    res.samples = [samples[k] for k in order if k in samples][:8]
    what = {
        "E": "the error reaching the caller (or ErrorCode/Error() of the handler's error) differs from the specification",
        "R": "the reply to a call whose result cannot be marshalled differs from the specification",
        "N": "the server's reaction to a failing notification differs from the specification",
        "K": "the reply to a call whose context was done when its handler returned is not the one for what the handler "
             "returned (c14_cancellation_does_not_replace_error)",
        "B": "a call of a batch did not get the reply it would get alone (c14_batch_members_independent, "
             "c14_batch_never_loses)",
        "C": "ErrorCode(Code(c).Err()) or its text differs from the specification",
        "W": "Error.WithData modified its receiver or built a different copy",
        "G": "json.Marshal(json.RawMessage) differs from the modelled contract (glue)",
        "S": "the JSON string round trip differs from the modelled contract (glue)",
    }
    # report the first disagreement of every family first (only a few violations are printed)
    first, rest, seen_fam = [], [], set()
    for m in mism:
        fam = lines[m["line"] - 1].split("\t")[0]
        if fam in seen_fam:
            rest.append(m)
        else:
            seen_fam.add(fam)
            first.append(m)
    res.extra["mismatches_by_family"] = {}
    for m in mism:
        fam = lines[m["line"] - 1].split("\t")[0]
        res.extra["mismatches_by_family"][fam] = res.extra["mismatches_by_family"].get(fam, 0) + 1
    for m in (first + rest)[:20]:
        line = lines[m["line"] - 1]
        f = line.split("\t")
        inp = "\t".join(f[:-1])
        res.violation("c14:" + C.sha(inp), what.get(f[0], "disagreement"),
                      dict(kind="failing-input", cases=[dict(input=inp, expected=m["expected"], got=m["got"])],
                           replay_cmd="./check C14 --replay <this file>"))


def run(ctx, res):
    """The pure error families, plus the callback direction: an *Error returned by a client's OnCallback handler reaches
    the caller of Server.Callback with its code and message (family cli:c09 of the client harness: the reply the client
    sends for a failed callback is the model's CbErr code/message, byte for byte)."""
    if ctx.get("replay"):
        with open(ctx["replay"]) as f:
            fam = json.load(f).get("family", "")
        if str(fam).startswith("cli:"):
            from . import clilib
            return clilib.run_family(ctx, res, "cli:c09")
        if str(fam).startswith("hc:"):
            from . import hclib
            with open(ctx["replay"]) as f:
                rp = json.load(f)
            stats = dict(evals=0, distinct=set(), kinds={}, samples=[], pending_at_close={})
            c2 = dict(ctx, seed=int(rp.get("seed", ctx["seed"])))
            return hclib.run_family(c2, res, rp["family"], int(rp["idx"]), int(rp["idx"]) + 1, stats, shards=1)
        return _run_pure(ctx, res)
    from . import clilib
    clilib.run_family(ctx, res, "cli:c09", n_quick=900, n_thorough=12000)
    ev2, dn2, extra2 = res.evaluations, res.distinct_nontrivial, dict(res.extra)
    # ... and over the HTTP transport (a Client over jhttp.Channel against a Bridge): handler errors - context errors
    # and coded errors included - reach the caller exactly as over a direct connection (family hc:bridge)
    from . import hclib
    stats = dict(evals=0, distinct=set(), kinds={}, samples=[], pending_at_close={})
    hclib.run_family(ctx, res, "hc:bridge", 0, 8000 if ctx["tier"] == "thorough" else 600, stats)
    _run_pure(ctx, res)
    res.evaluations += ev2 + stats["evals"]
    res.distinct_nontrivial += dn2 + len(stats["distinct"])
    res.extra["callback_direction"] = extra2
    res.extra["http_transport_scenarios"] = stats["evals"]
